#!/usr/bin/env python3
"""Confirm a seeded change produced by a sub-agent, in a scratch worktree outside /repo and /verif:
 (a) unchanged tree + demo: demo passes; (b) patch + demo: demo fails; (c) patch alone: build + the 319 existing tests pass.
Confirmed changes are stored as /verif/seeded/<id>-<k>/ (patch.diff, demo.diff, meta.json)."""
import json, os, subprocess, sys, shutil

def sh(cmd, cwd):
    p = subprocess.run(cmd, shell=True, cwd=cwd, capture_output=True, text=True, timeout=3600)
    return p.returncode, p.stdout + p.stderr

ROOT = os.environ.get("SEED_ROOT", "/tmp/seed")      # where the sub-agents' worktrees are
OFFSET = int(os.environ.get("SEED_OFFSET", "0"))     # round 2 is stored as <prop>-4..6

def main(prop, ks):
    wt = f"/tmp/seedverify-{prop}"
    sh(f"git -C /repo worktree remove --force {wt}", "/")
    rc, out = sh(f"git -C /repo worktree add -q --detach {wt} HEAD", "/")
    assert rc == 0, out
    try:
        for k in ks:
            src = f"{ROOT}/{prop}/seed-out/{k}"
            if not os.path.exists(f"{src}/meta.json"):
                print(f"{prop}-{k}: no deliverable"); continue
            meta = json.load(open(f"{src}/meta.json"))
            demo_cmd = meta["demo_cmd"].replace(f"{ROOT}/{prop}", wt)
            if "cd " not in demo_cmd:
                demo_cmd = f"cd {wt} && {demo_cmd}"
            res = {}
            def reset():
                sh("git checkout -q -- . && git clean -fdq -e target", wt)
            reset()
            rc, out = sh(f"git apply {src}/demo.diff", wt); assert rc == 0, f"demo.diff: {out}"
            rc, out = sh(demo_cmd, wt); res["a_demo_on_unchanged"] = "pass" if rc == 0 else f"FAIL rc={rc}"
            rc2, out2 = sh(f"git apply {src}/patch.diff", wt); assert rc2 == 0, f"patch.diff: {out2}"
            rc, out = sh(demo_cmd, wt); res["b_demo_with_patch"] = "fails" if rc != 0 else "PASSES"
            reset()
            rc, out = sh(f"git apply {src}/patch.diff", wt); assert rc == 0
            rc, out = sh("cargo build --workspace --offline 2>&1 | tail -3", wt)
            rc, out = sh("cargo nextest run --workspace --no-fail-fast --offline 2>&1 | tail -3", wt)
            res["c_suite_with_patch"] = out.strip().splitlines()[-1].strip() if out.strip() else f"rc={rc}"
            reset()
            ok = res["a_demo_on_unchanged"] == "pass" and res["b_demo_with_patch"] == "fails" and "319 passed" in res["c_suite_with_patch"]
            print(f"{prop}-{int(k) + OFFSET}: {'CONFIRMED' if ok else 'REJECTED'} {res} :: {meta.get('title','')[:90]}")
            if ok:
                dst = f"/verif/seeded/{prop}-{int(k) + OFFSET}"
                os.makedirs(dst, exist_ok=True)
                shutil.copy(f"{src}/patch.diff", dst); shutil.copy(f"{src}/demo.diff", dst)
                meta["confirmed_by_lead"] = res
                meta["demo_cmd"] = meta["demo_cmd"].replace(f"{ROOT}/{prop}", "<scratch worktree of /repo>")
                meta["round"] = OFFSET // 3 + 1
                meta["how_confirmed"] = "scratch worktree of /repo HEAD: git apply demo.diff -> demo passes; + git apply patch.diff -> demo fails; patch.diff alone -> cargo build --workspace and cargo nextest run --workspace (319 tests) pass"
                json.dump(meta, open(f"{dst}/meta.json", "w"), indent=1)
    finally:
        sh(f"git -C /repo worktree remove --force {wt}", "/")

if __name__ == "__main__":
    main(sys.argv[1], sys.argv[2:] or ["1", "2", "3"])
