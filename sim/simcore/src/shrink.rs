//! Delta-debugging style minimisation, generic over the case type.

/// What a case type must offer to be minimised.
pub trait Shrinkable: Clone {
    /// Number of removable top-level parts (steps).
    fn parts(&self) -> usize;
    /// A copy with parts `lo..hi` removed.
    fn without(&self, lo: usize, hi: usize) -> Self;
    /// One round of candidate simplifications of single parts (shorter payloads,
    /// fewer MAC commands, dropped faults, simpler configuration ...), most
    /// aggressive first.
    fn simplifications(&self) -> Vec<Self>;
}

pub struct ShrinkReport {
    pub executions: usize,
    pub accepted: usize,
}

/// Minimise `case` while `still_fails` holds. Bounded by `budget` executions.
pub fn minimise<C: Shrinkable>(
    case: C,
    budget: usize,
    mut still_fails: impl FnMut(&C) -> bool,
) -> (C, ShrinkReport) {
    let mut cur = case;
    let mut rep = ShrinkReport { executions: 0, accepted: 0 };
    // phase 1: remove chunks of parts
    let mut chunk = (cur.parts() / 2).max(1);
    loop {
        let mut progress = false;
        let mut lo = 0usize;
        while lo < cur.parts() && rep.executions < budget {
            let hi = (lo + chunk).min(cur.parts());
            let cand = cur.without(lo, hi);
            rep.executions += 1;
            if still_fails(&cand) {
                cur = cand;
                rep.accepted += 1;
                progress = true;
                // do not advance lo: the next chunk moved into place
            } else {
                lo = hi;
            }
        }
        if rep.executions >= budget {
            break;
        }
        if chunk == 1 {
            if !progress {
                break;
            }
        } else {
            chunk = (chunk / 2).max(1);
        }
    }
    // phase 2: greedy per-part simplification
    'outer: while rep.executions < budget {
        for cand in cur.simplifications() {
            if rep.executions >= budget {
                break 'outer;
            }
            rep.executions += 1;
            if still_fails(&cand) {
                cur = cand;
                rep.accepted += 1;
                continue 'outer;
            }
        }
        break;
    }
    // phase 3: one more single-part removal pass (simplification may have
    // made steps removable)
    let mut lo = 0usize;
    while lo < cur.parts() && rep.executions < budget {
        let cand = cur.without(lo, lo + 1);
        rep.executions += 1;
        if still_fails(&cand) {
            cur = cand;
            rep.accepted += 1;
        } else {
            lo += 1;
        }
    }
    (cur, rep)
}
