//! Generic check driver: seeded batch of simulated runs over all cores,
//! violation triage (known findings), minimisation, replay files verified in a
//! fresh process, evidence output.

use crate::prng::mix;
use crate::shrink::{minimise, Shrinkable};
use serde::de::DeserializeOwned;
use serde::{Deserialize, Serialize};
use std::collections::{BTreeMap, BTreeSet};
use std::path::{Path, PathBuf};
use std::sync::atomic::{AtomicBool, AtomicU64, Ordering};
use std::sync::Mutex;
use std::time::{Duration, Instant};

#[derive(Clone, Copy, PartialEq, Eq, Debug)]
pub enum Tier {
    Quick,
    Thorough,
}
impl Tier {
    pub fn name(&self) -> &'static str {
        match self {
            Tier::Quick => "quick",
            Tier::Thorough => "thorough",
        }
    }
}

#[derive(Clone, Debug, Serialize, Deserialize)]
pub struct Violation {
    /// stable invariant id, e.g. `C06.counter-not-increasing`
    pub invariant: String,
    /// human readable description of what was observed
    pub message: String,
    /// invariant id + discriminating facts; used to group and to match known findings
    pub signature: String,
}

impl Violation {
    pub fn new(invariant: &str, detail: &str, message: String) -> Self {
        Violation {
            invariant: invariant.to_string(),
            signature: if detail.is_empty() { invariant.to_string() } else { format!("{invariant}|{detail}") },
            message,
        }
    }
}

#[derive(Default, Clone, Debug)]
pub struct RunStats {
    /// simulated milliseconds covered by this run
    pub sim_ms: u64,
    /// simulator events executed
    pub steps: u64,
    /// `fault.<kind>` fired counts, `probe.<name>` hit counts
    pub counters: BTreeMap<&'static str, u64>,
    /// hash of the trace shape (event kinds, not payload bytes)
    pub shape: u64,
    /// did the run reach the property's core event?
    pub nontrivial: bool,
    /// hashes of distinct device states reached (by the property's measure)
    pub states: Vec<u64>,
}
impl RunStats {
    pub fn bump(&mut self, k: &'static str) {
        *self.counters.entry(k).or_insert(0) += 1;
    }
    pub fn add(&mut self, k: &'static str, n: u64) {
        *self.counters.entry(k).or_insert(0) += n;
    }
}

pub struct Outcome {
    pub violation: Option<Violation>,
    pub stats: RunStats,
    /// human readable trace lines (only when requested)
    pub trace: Vec<String>,
}

pub trait Property: Sync {
    type Case: Shrinkable + Serialize + DeserializeOwned + Send + Sync;
    fn id(&self) -> &'static str;
    /// evidence level: "exploration" or "fault_enumeration"
    fn level(&self) -> &'static str;
    fn rule(&self) -> String;
    fn assumptions(&self) -> Vec<String>;
    /// which components ran real code and which a stub
    fn components(&self) -> serde_json::Value;
    /// number of runs for the tier
    fn budget(&self, tier: Tier) -> u64;
    /// The case for run `run` of this batch. Must be a pure function of its arguments.
    fn generate(&self, seed: u64, run: u64, tier: Tier, avoid: &BTreeSet<String>) -> Self::Case;
    /// Execute one case in the simulator. Must be a pure function of the case.
    fn execute(&self, case: &Self::Case, want_trace: bool) -> Outcome;
    /// Reference-model self tests; an error is a harness error (exit 2).
    fn self_test(&self) -> Result<(), String> {
        Ok(())
    }
    /// probes that should be non-zero in a healthy batch
    fn expected_probes(&self, _tier: Tier) -> Vec<&'static str> {
        vec![]
    }
    /// further coverage facts computed from the tier and the number of runs (merged into the evidence)
    fn coverage_extra(&self, _tier: Tier, _runs: u64) -> serde_json::Value {
        serde_json::Value::Null
    }
    /// short description of a case for the evidence samples
    fn sample(&self, case: &Self::Case) -> serde_json::Value {
        serde_json::to_value(case).unwrap_or(serde_json::Value::Null)
    }
}

#[derive(Clone, Debug, Serialize, Deserialize)]
pub struct KnownFinding {
    pub property: String,
    /// "known" (recorded, not repaired) or "fixed" (repaired by a fix: commit; suppresses nothing)
    pub status: String,
    /// prefix of the violation signature this entry covers
    pub signature: String,
    pub description: String,
    /// committed replay script (relative to /verif)
    #[serde(default)]
    pub replay: Option<String>,
    #[serde(default)]
    pub commit: Option<String>,
    /// generator tags to avoid so that exploration is not stopped by this finding
    #[serde(default)]
    pub avoid: Vec<String>,
}

#[derive(Clone, Debug, Serialize, Deserialize, Default)]
pub struct KnownFindings {
    #[serde(default)]
    pub findings: Vec<KnownFinding>,
}

impl KnownFindings {
    pub fn load(verif_root: &Path) -> Result<Self, String> {
        let p = verif_root.join("known_findings.json");
        if !p.exists() {
            return Ok(Self::default());
        }
        let s = std::fs::read_to_string(&p).map_err(|e| format!("{p:?}: {e}"))?;
        serde_json::from_str(&s).map_err(|e| format!("{p:?}: {e}"))
    }
    pub fn known_for<'a>(&'a self, prop: &'a str) -> impl Iterator<Item = &'a KnownFinding> + 'a {
        self.findings.iter().filter(move |f| f.property == prop && f.status == "known")
    }
    pub fn matches<'a>(&'a self, prop: &str, signature: &str) -> Option<&'a KnownFinding> {
        self.findings
            .iter()
            .find(|f| f.property == prop && f.status == "known" && signature.starts_with(&f.signature))
    }
    pub fn avoid_tags(&self, prop: &str) -> BTreeSet<String> {
        let mut s = BTreeSet::new();
        for f in self.known_for(prop) {
            for t in &f.avoid {
                s.insert(t.clone());
            }
        }
        s
    }
}

#[derive(Serialize, Deserialize)]
pub struct ReplayFile<C> {
    pub property: String,
    pub invariant: String,
    pub signature: String,
    pub message: String,
    pub verif_seed: u64,
    pub run: u64,
    pub tier: String,
    pub original_parts: usize,
    pub minimised_parts: usize,
    pub shrink_executions: usize,
    pub case: C,
    pub trace: Vec<String>,
}

pub struct Opts {
    pub tier: Tier,
    pub seed: u64,
    pub runs_override: Option<u64>,
    pub workers: usize,
    pub verif_root: PathBuf,
    /// where replays and evidence are written (VERIF_OUT; default: verif_root). Experiments and self-tests write
    /// elsewhere while still reading known_findings.json and the regression replays from verif_root.
    pub out_root: PathBuf,
    pub write_evidence: bool,
    /// print a hash over all per-run (shape, violation) pairs: used by the determinism self-test
    pub print_digest: bool,
    pub max_reports: usize,
}

impl Opts {
    pub fn from_env(tier: Tier) -> Self {
        let seed = std::env::var("VERIF_SEED").ok().and_then(|s| s.trim().parse::<u64>().ok()).unwrap_or(1);
        let runs_override = std::env::var("VERIF_RUNS").ok().and_then(|s| s.trim().parse::<u64>().ok());
        let workers = std::env::var("VERIF_WORKERS")
            .ok()
            .and_then(|s| s.trim().parse::<usize>().ok())
            .unwrap_or_else(|| std::thread::available_parallelism().map(|n| n.get()).unwrap_or(4))
            .max(1);
        let verif_root = std::env::var("VERIF_ROOT").map(PathBuf::from).unwrap_or_else(|_| PathBuf::from("/verif"));
        Opts {
            tier,
            seed,
            runs_override,
            workers,
            out_root: std::env::var("VERIF_OUT").map(PathBuf::from).unwrap_or_else(|_| verif_root.clone()),
            verif_root,
            write_evidence: std::env::var("VERIF_NO_EVIDENCE").is_err(),
            print_digest: std::env::var("VERIF_DIGEST").is_ok(),
            max_reports: 6,
        }
    }
}

thread_local! {
    static LAST_PANIC_LOC: std::cell::RefCell<Option<String>> = const { std::cell::RefCell::new(None) };
}

/// Install a panic hook that records the panic location per thread and stays
/// silent (device panics are expected events in a simulation; they are caught
/// and classified by the caller).
pub fn install_quiet_panic_hook() {
    std::panic::set_hook(Box::new(|info| {
        let loc = info.location().map(|l| format!("{}:{}:{}", l.file(), l.line(), l.column())).unwrap_or_default();
        LAST_PANIC_LOC.with(|c| *c.borrow_mut() = Some(loc));
        if std::env::var("VERIF_SHOW_PANICS").is_ok() {
            eprintln!("[panic] {info}");
        }
    }));
}

pub fn take_last_panic_location() -> Option<String> {
    LAST_PANIC_LOC.with(|c| c.borrow_mut().take())
}

/// Render a panic payload.
pub fn panic_message(p: &(dyn std::any::Any + Send)) -> String {
    if let Some(s) = p.downcast_ref::<&str>() {
        (*s).to_string()
    } else if let Some(s) = p.downcast_ref::<String>() {
        s.clone()
    } else {
        "<non-string panic payload>".to_string()
    }
}

/// Is this panic location inside the verification harness (as opposed to the
/// code under test or its dependencies)?
pub fn location_is_harness(loc: &str) -> bool {
    loc.starts_with("lorasim/") || loc.starts_with("physim/") || loc.starts_with("simcore/") || loc.contains("/verif/")
}

/// Per-worker tallies (merged at the end; every quantity is independent of how runs were split).
#[derive(Default)]
struct Tally {
    runs: u64,
    nontrivial_runs: u64,
    /// distinct trace-shape hashes of non-trivial runs (capped; the count is then a lower bound)
    shapes: BTreeSet<u64>,
    /// commutative digest over (run, shape, violation signature)
    digest: u64,
    /// signature -> (lowest run index, violation of that run, number of runs)
    by_sig: BTreeMap<String, (u64, Violation, u64)>,
}

const SHAPE_CAP: usize = 6_000_000;

impl Tally {
    fn note(&mut self, run: u64, shape: u64, nontrivial: bool, violation: Option<Violation>) {
        self.runs += 1;
        let mut h = crate::prng::Fnv::new();
        h.u64(run);
        h.u64(shape);
        if let Some(v) = &violation {
            h.str(&v.signature);
        }
        self.digest = self.digest.wrapping_add(h.finish());
        if nontrivial {
            self.nontrivial_runs += 1;
            if self.shapes.len() < SHAPE_CAP {
                self.shapes.insert(shape);
            }
        }
        if let Some(v) = violation {
            match self.by_sig.get_mut(&v.signature) {
                Some(e) => {
                    e.2 += 1;
                    if run < e.0 {
                        e.0 = run;
                        e.1 = v;
                    }
                }
                None => {
                    if self.by_sig.len() < 10_000 {
                        self.by_sig.insert(v.signature.clone(), (run, v, 1));
                    }
                }
            }
        }
    }
    fn merge(&mut self, o: Tally) {
        self.runs += o.runs;
        self.nontrivial_runs += o.nontrivial_runs;
        self.digest = self.digest.wrapping_add(o.digest);
        for s in o.shapes {
            if self.shapes.len() < SHAPE_CAP {
                self.shapes.insert(s);
            }
        }
        for (k, (run, v, n)) in o.by_sig {
            match self.by_sig.get_mut(&k) {
                Some(e) => {
                    e.2 += n;
                    if run < e.0 {
                        e.0 = run;
                        e.1 = v;
                    }
                }
                None => {
                    self.by_sig.insert(k, (run, v, n));
                }
            }
        }
    }
}

pub const EXIT_OK: i32 = 0;
pub const EXIT_VIOLATION: i32 = 1;
pub const EXIT_HARNESS: i32 = 2;

const RUN_HANG_LIMIT: Duration = Duration::from_secs(60);

/// Run the check for one property. Returns the process exit code.
pub fn run_check<P: Property>(p: &P, opts: &Opts) -> i32 {
    let started = Instant::now();
    let id = p.id();
    println!("VERIF_SEED={} property={} tier={} workers={}", opts.seed, id, opts.tier.name(), opts.workers);
    if let Err(e) = p.self_test() {
        println!("HARNESS-ERROR property={id} reference self-test failed: {e}");
        return EXIT_HARNESS;
    }
    let known = match KnownFindings::load(&opts.verif_root) {
        Ok(k) => k,
        Err(e) => {
            println!("HARNESS-ERROR property={id} cannot read known findings: {e}");
            return EXIT_HARNESS;
        }
    };
    let avoid = known.avoid_tags(id);
    install_quiet_panic_hook();

    // 1. replay committed known findings
    let mut known_lines: BTreeSet<String> = BTreeSet::new();
    for kf in known.known_for(id) {
        if let Some(rel) = &kf.replay {
            let path = opts.verif_root.join(rel);
            match load_replay::<P::Case>(&path) {
                Ok(rf) => {
                    let out = guarded_execute(p, &rf.case, false);
                    match out {
                        Ok(o) => match o.violation {
                            Some(v) if v.signature.starts_with(&kf.signature) => {
                                known_lines.insert(format!("KNOWN-FINDING: property={id} {} [{}]", kf.description, kf.signature));
                            }
                            Some(v) => {
                                println!(
                                    "note: known-finding replay {rel} now fails differently: {} (expected prefix {})",
                                    v.signature, kf.signature
                                );
                            }
                            None => {
                                println!("note: known-finding replay {rel} no longer violates (defect gone?)");
                            }
                        },
                        Err(e) => {
                            println!("HARNESS-ERROR property={id} replaying {rel}: {e}");
                            return EXIT_HARNESS;
                        }
                    }
                }
                Err(e) => {
                    println!("HARNESS-ERROR property={id} cannot load {rel}: {e}");
                    return EXIT_HARNESS;
                }
            }
        }
    }

    // 1b. regression replays of fixed findings: they suppress nothing, and a violation that
    // returns is reported like any other
    let mut regression_exit = EXIT_OK;
    for kf in known.findings.iter().filter(|f| f.property == id && f.status == "fixed") {
        if let Some(rel) = &kf.replay {
            let path = opts.verif_root.join(rel);
            match load_replay::<P::Case>(&path) {
                Ok(rf) => match guarded_execute(p, &rf.case, false) {
                    Ok(o) => {
                        if let Some(v) = o.violation {
                            println!("VIOLATION property={id} replay={}", path.display());
                            println!("  invariant={} (a finding recorded as fixed has returned: {})", v.invariant, kf.description);
                            println!("  {}", v.message);
                            regression_exit = EXIT_VIOLATION;
                        }
                    }
                    Err(e) => {
                        println!("HARNESS-ERROR property={id} replaying {rel}: {e}");
                        return EXIT_HARNESS;
                    }
                },
                Err(e) => {
                    println!("HARNESS-ERROR property={id} cannot load {rel}: {e}");
                    return EXIT_HARNESS;
                }
            }
        }
    }

    // 2. the batch
    let total = opts.runs_override.unwrap_or_else(|| p.budget(opts.tier));
    let next = AtomicU64::new(0);
    let harness_error: Mutex<Option<String>> = Mutex::new(None);
    let stop = AtomicBool::new(false);
    let tally: Mutex<Tally> = Mutex::new(Tally::default());
    let agg: Mutex<Agg> = Mutex::new(Agg::default());
    // watchdog bookkeeping: per worker (run index + 1, started-at millis since `started`)
    let current: Vec<(AtomicU64, AtomicU64)> = (0..opts.workers).map(|_| (AtomicU64::new(0), AtomicU64::new(0))).collect();
    let hang: Mutex<Option<u64>> = Mutex::new(None);
    const CHUNK: u64 = 64;

    std::thread::scope(|s| {
        for w in 0..opts.workers {
            let next = &next;
            let stop = &stop;
            let tally = &tally;
            let agg = &agg;
            let harness_error = &harness_error;
            let avoid = &avoid;
            let current = &current;
            s.spawn(move || {
                let mut local = Agg::default();
                let mut local_tally = Tally::default();
                loop {
                    if stop.load(Ordering::Relaxed) {
                        break;
                    }
                    let lo = next.fetch_add(CHUNK, Ordering::Relaxed);
                    if lo >= total {
                        break;
                    }
                    let hi = (lo + CHUNK).min(total);
                    for run in lo..hi {
                        current[w].1.store(started.elapsed().as_millis() as u64, Ordering::Relaxed);
                        current[w].0.store(run + 1, Ordering::Relaxed);
                        let case = p.generate(opts.seed, run, opts.tier, avoid);
                        match guarded_execute(p, &case, false) {
                            Ok(out) => {
                                local.absorb(&out.stats, run, &case, p);
                                local_tally.note(run, out.stats.shape, out.stats.nontrivial, out.violation);
                            }
                            Err(e) => {
                                let mut he = harness_error.lock().unwrap();
                                if he.is_none() {
                                    *he = Some(format!("run {run}: {e}"));
                                }
                                stop.store(true, Ordering::Relaxed);
                                break;
                            }
                        }
                    }
                    current[w].0.store(0, Ordering::Relaxed);
                }
                current[w].0.store(0, Ordering::Relaxed);
                agg.lock().unwrap().merge(local);
                tally.lock().unwrap().merge(local_tally);
            });
        }
        // watchdog
        let stop = &stop;
        let current = &current;
        let hang = &hang;
        let next = &next;
        s.spawn(move || loop {
            std::thread::sleep(Duration::from_millis(200));
            let all_idle = current.iter().all(|c| c.0.load(Ordering::Relaxed) == 0);
            if (all_idle && next.load(Ordering::Relaxed) >= total) || stop.load(Ordering::Relaxed) {
                break;
            }
            let now = started.elapsed().as_millis() as u64;
            for c in current.iter() {
                let r = c.0.load(Ordering::Relaxed);
                let t = c.1.load(Ordering::Relaxed);
                if r != 0 && now.saturating_sub(t) > RUN_HANG_LIMIT.as_millis() as u64 {
                    *hang.lock().unwrap() = Some(r - 1);
                }
            }
            if let Some(run) = *hang.lock().unwrap() {
                // A run that neither returns nor draws from the device RNG: report and leave.
                let case = p.generate(opts.seed, run, opts.tier, &BTreeSet::new());
                let rf = ReplayFile {
                    property: id.to_string(),
                    invariant: format!("{id}.hang"),
                    signature: format!("{id}.hang"),
                    message: format!("run did not finish within {}s of wall clock", RUN_HANG_LIMIT.as_secs()),
                    verif_seed: opts.seed,
                    run,
                    tier: opts.tier.name().to_string(),
                    original_parts: case.parts(),
                    minimised_parts: case.parts(),
                    shrink_executions: 0,
                    case,
                    trace: vec![],
                };
                let path = replay_path(&opts.out_root, id, opts.seed, run, "hang");
                let _ = write_replay(&path, &rf);
                println!("VIOLATION property={id} replay={}", path.display());
                println!("  invariant={id}.hang (wall-clock watchdog; not minimised)");
                std::process::exit(EXIT_VIOLATION);
            }
        });
    });

    if let Some(e) = harness_error.lock().unwrap().take() {
        println!("HARNESS-ERROR property={id} {e}");
        return EXIT_HARNESS;
    }

    let tally = tally.into_inner().unwrap();
    let agg = agg.into_inner().unwrap();

    if opts.print_digest {
        println!("DIGEST property={id} runs={} digest={:016x}", tally.runs, tally.digest);
    }

    // 3. triage
    let by_sig = &tally.by_sig;
    let mut new_violations: Vec<(String, u64, Violation, u64)> = Vec::new();
    for (sig, (run, v, count)) in by_sig {
        if let Some(kf) = known.matches(id, sig) {
            known_lines.insert(format!("KNOWN-FINDING: property={id} {} [{}]", kf.description, kf.signature));
        } else {
            new_violations.push((sig.clone(), *run, v.clone(), *count));
        }
    }
    new_violations.sort_by_key(|x| x.1);
    for l in &known_lines {
        println!("{l}");
    }

    let mut exit = regression_exit;
    let mut reported = 0usize;
    let mut reported_invariants: BTreeSet<String> = BTreeSet::new();
    let mut reported_signatures: BTreeSet<String> = BTreeSet::new();
    for (sig, run, v, count) in &new_violations {
        if reported >= opts.max_reports {
            println!("  (+ further distinct signature not minimised: {sig} x{count})");
            continue;
        }
        // minimise
        let case = p.generate(opts.seed, *run, opts.tier, &avoid);
        let original_parts = case.parts();
        let inv = v.invariant.clone();
        let (min_case, rep) = minimise(case, 1500, |c| match guarded_execute(p, c, false) {
            Ok(o) => o.violation.map(|x| x.invariant == inv).unwrap_or(false),
            Err(_) => false,
        });
        let out = match guarded_execute(p, &min_case, true) {
            Ok(o) => o,
            Err(e) => {
                println!("HARNESS-ERROR property={id} minimised case failed to execute: {e}");
                return EXIT_HARNESS;
            }
        };
        let mv = match out.violation {
            Some(mv) => mv,
            None => {
                println!("HARNESS-ERROR property={id} minimised case of run {run} does not violate (non-deterministic?)");
                return EXIT_HARNESS;
            }
        };
        // the minimised case may have turned into a known finding's signature
        if let Some(kf) = known.matches(id, &mv.signature) {
            let l = format!("KNOWN-FINDING: property={id} {} [{}]", kf.description, kf.signature);
            if known_lines.insert(l.clone()) {
                println!("{l}");
            }
            continue;
        }
        if !reported_signatures.insert(mv.signature.clone()) {
            // another run already minimised to exactly this violation
            continue;
        }
        let tag = short_tag(&mv.signature);
        let path = replay_path(&opts.out_root, id, opts.seed, *run, &tag);
        let rf = ReplayFile {
            property: id.to_string(),
            invariant: mv.invariant.clone(),
            signature: mv.signature.clone(),
            message: mv.message.clone(),
            verif_seed: opts.seed,
            run: *run,
            tier: opts.tier.name().to_string(),
            original_parts,
            minimised_parts: min_case.parts(),
            shrink_executions: rep.executions,
            case: min_case,
            trace: out.trace,
        };
        if let Err(e) = write_replay(&path, &rf) {
            println!("HARNESS-ERROR property={id} cannot write replay: {e}");
            return EXIT_HARNESS;
        }
        // verify in a fresh process
        match verify_replay_fresh(&path, &mv.invariant) {
            Ok(()) => {}
            Err(e) => {
                println!("HARNESS-ERROR property={id} replay {} does not reproduce in a fresh process: {e}", path.display());
                return EXIT_HARNESS;
            }
        }
        println!("VIOLATION property={id} replay={}", path.display());
        println!("  invariant={} runs_hit={} first_run={} steps {}->{}", mv.invariant, count, run, original_parts, rf.minimised_parts);
        println!("  {}", mv.message);
        reported += 1;
        reported_invariants.insert(mv.invariant.clone());
        exit = EXIT_VIOLATION;
    }

    // 4. evidence
    let wall = started.elapsed().as_secs_f64();
    let n_viol = new_violations.len();
    let shapes = &tally.shapes;
    let mut warnings = Vec::new();
    for pr in p.expected_probes(opts.tier) {
        if agg.counters.get(pr).copied().unwrap_or(0) == 0 {
            warnings.push(format!("probe {pr} stuck at zero"));
        }
    }
    if let Some(n) = agg.counters.get("probe.run-skipped-setup-refused-by-device").copied().filter(|n| *n > 0) {
        warnings.push(format!("{n} runs skipped: the device refused the initial state the harness tried to install"));
    }
    for w in &warnings {
        println!("warning: {w}");
    }
    if opts.write_evidence {
        let runs = tally.runs;
        let mut ev = serde_json::json!({
            "property_id": id,
            "tier": opts.tier.name(),
            "seed": opts.seed,
            "level": p.level(),
            "coverage": {
                "evaluations": runs,
                "distinct_nontrivial": shapes.len(),
                "rule": p.rule(),
                "samples": agg.samples,
                "nontrivial_runs": tally.nontrivial_runs,
                "distinct_nontrivial_is_lower_bound": shapes.len() >= SHAPE_CAP,
                "distinct_states": agg.states.len(),
                "simulated_time_s": agg.sim_ms as f64 / 1000.0,
                "simulator_events": agg.steps,
                "runs_per_hour": if wall > 0.0 { (runs as f64 / wall * 3600.0) as u64 } else { 0 },
                "faults_fired": agg.counters.iter().filter(|(k, _)| k.starts_with("fault.")).map(|(k, v)| (k.to_string(), *v)).collect::<BTreeMap<_, _>>(),
                "probes": agg.counters.iter().filter(|(k, _)| !k.starts_with("fault.")).map(|(k, v)| (k.to_string(), *v)).collect::<BTreeMap<_, _>>(),
                "components": p.components(),
                "known_findings_reported": known_lines.iter().cloned().collect::<Vec<_>>(),
                "violating_signatures": by_sig.iter().map(|(k, v)| (k.clone(), v.2)).collect::<BTreeMap<_, _>>(),
                "warnings": warnings,
                "workers": opts.workers,
                "exhaustive": false,
            },
            "assumptions": p.assumptions(),
            "wall_s": wall,
            "violations": n_viol + if regression_exit == EXIT_OK { 0 } else { 1 },
        });
        let extra = p.coverage_extra(opts.tier, runs);
        if !extra.is_null() {
            ev["coverage"]["systematic"] = extra;
        }
        let dir = opts.out_root.join("evidence");
        let _ = std::fs::create_dir_all(&dir);
        let path = dir.join(format!("{id}.json"));
        if let Err(e) = std::fs::write(&path, serde_json::to_string_pretty(&ev).unwrap() + "\n") {
            println!("HARNESS-ERROR property={id} cannot write evidence: {e}");
            return EXIT_HARNESS;
        }
    }
    println!(
        "property={id} runs={} nontrivial_shapes={} states={} sim_time_s={:.0} violations={} known={} wall_s={:.1}",
        tally.runs,
        shapes.len(),
        agg.states.len(),
        agg.sim_ms as f64 / 1000.0,
        n_viol,
        known_lines.len(),
        wall
    );
    exit
}

#[derive(Default)]
struct Agg {
    sim_ms: u64,
    steps: u64,
    counters: BTreeMap<&'static str, u64>,
    states: BTreeSet<u64>,
    samples: Vec<serde_json::Value>,
    sample_runs: Vec<u64>,
}
impl Agg {
    fn absorb<P: Property>(&mut self, s: &RunStats, run: u64, case: &P::Case, p: &P) {
        self.sim_ms += s.sim_ms;
        self.steps += s.steps;
        for (k, v) in &s.counters {
            *self.counters.entry(k).or_insert(0) += v;
        }
        for st in &s.states {
            if self.states.len() < 2_000_000 {
                self.states.insert(*st);
            }
        }
        // samples: the three lowest non-trivial run indices (deterministic irrespective of workers)
        if s.nontrivial && (self.sample_runs.len() < 3 || run < *self.sample_runs.iter().max().unwrap()) {
            self.sample_runs.push(run);
            self.samples.push(serde_json::json!({"run": run, "case": p.sample(case)}));
            if self.sample_runs.len() > 3 {
                let (imax, _) = self.sample_runs.iter().enumerate().max_by_key(|(_, r)| **r).unwrap();
                self.sample_runs.remove(imax);
                self.samples.remove(imax);
            }
        }
    }
    fn merge(&mut self, o: Agg) {
        self.sim_ms += o.sim_ms;
        self.steps += o.steps;
        for (k, v) in o.counters {
            *self.counters.entry(k).or_insert(0) += v;
        }
        for st in o.states {
            if self.states.len() < 2_000_000 {
                self.states.insert(st);
            }
        }
        for (r, s) in o.sample_runs.into_iter().zip(o.samples) {
            self.sample_runs.push(r);
            self.samples.push(s);
        }
        while self.sample_runs.len() > 3 {
            let (imax, _) = self.sample_runs.iter().enumerate().max_by_key(|(_, r)| **r).unwrap();
            self.sample_runs.remove(imax);
            self.samples.remove(imax);
        }
        // keep samples ordered by run for stable output
        let mut zipped: Vec<(u64, serde_json::Value)> = self.sample_runs.drain(..).zip(self.samples.drain(..)).collect();
        zipped.sort_by_key(|z| z.0);
        for (r, s) in zipped {
            self.sample_runs.push(r);
            self.samples.push(s);
        }
    }
}

/// Execute a case; a panic that escapes `execute` is a harness error.
/// marker in the payload of the panic by which a simulator reports that the device refused the run's initial state
pub const SETUP_REFUSED: &str = "SIM-SETUP-REFUSED";

pub fn guarded_execute<P: Property>(p: &P, case: &P::Case, want_trace: bool) -> Result<Outcome, String> {
    let r = std::panic::catch_unwind(std::panic::AssertUnwindSafe(|| p.execute(case, want_trace)));
    match r {
        Ok(o) => Ok(o),
        Err(payload) => {
            let loc = take_last_panic_location().unwrap_or_default();
            let msg = panic_message(&*payload);
            if msg.contains(SETUP_REFUSED) {
                // The device refused an initial state the harness tried to install through the public API (for
                // instance a stricter deserialiser and a session document the device itself would never write).
                // No statement obliges it to accept; the run is skipped and counted.
                let mut stats = RunStats::default();
                stats.bump("probe.run-skipped-setup-refused-by-device");
                return Ok(Outcome { violation: None, stats, trace: vec![msg] });
            }
            Err(format!("harness panic at {loc}: {msg}"))
        }
    }
}

fn short_tag(sig: &str) -> String {
    let mut h = crate::prng::Fnv::new();
    h.str(sig);
    let inv = sig.split('|').next().unwrap_or(sig);
    let inv = inv.split('.').nth(1).unwrap_or(inv);
    format!("{}-{:08x}", inv, (h.finish() & 0xffff_ffff) as u32)
}

pub fn replay_path(root: &Path, id: &str, seed: u64, run: u64, tag: &str) -> PathBuf {
    root.join("replays").join(format!("{id}-s{seed}-r{run}-{tag}.json"))
}

pub fn write_replay<C: Serialize>(path: &Path, rf: &ReplayFile<C>) -> Result<(), String> {
    if let Some(d) = path.parent() {
        std::fs::create_dir_all(d).map_err(|e| e.to_string())?;
    }
    let s = serde_json::to_string_pretty(rf).map_err(|e| e.to_string())?;
    std::fs::write(path, s + "\n").map_err(|e| e.to_string())
}

pub fn load_replay<C: DeserializeOwned>(path: &Path) -> Result<ReplayFile<C>, String> {
    let s = std::fs::read_to_string(path).map_err(|e| format!("{}: {e}", path.display()))?;
    serde_json::from_str(&s).map_err(|e| format!("{}: {e}", path.display()))
}

/// Peek at the property id of a replay file.
pub fn replay_property(path: &Path) -> Result<String, String> {
    let s = std::fs::read_to_string(path).map_err(|e| format!("{}: {e}", path.display()))?;
    let v: serde_json::Value = serde_json::from_str(&s).map_err(|e| format!("{}: {e}", path.display()))?;
    v.get("property").and_then(|p| p.as_str()).map(|s| s.to_string()).ok_or_else(|| "no property field".to_string())
}

fn verify_replay_fresh(path: &Path, invariant: &str) -> Result<(), String> {
    let exe = std::env::current_exe().map_err(|e| e.to_string())?;
    let out = std::process::Command::new(exe)
        .arg("replay")
        .arg(path)
        .env("VERIF_QUIET", "1")
        .output()
        .map_err(|e| e.to_string())?;
    let stdout = String::from_utf8_lossy(&out.stdout);
    let want = format!("REPRODUCED invariant={invariant}");
    if out.status.code() == Some(EXIT_VIOLATION) && stdout.contains(&want) {
        Ok(())
    } else {
        Err(format!("exit={:?} stdout={}", out.status.code(), stdout.trim()))
    }
}

/// `check replay <file>`: re-execute the minimised script alone. Exit 1 when the
/// recorded violation reproduces (same invariant, identical trace), 0 when the
/// run is clean, 2 on harness errors.
pub fn run_replay<P: Property>(p: &P, path: &Path) -> i32 {
    install_quiet_panic_hook();
    let rf: ReplayFile<P::Case> = match load_replay(path) {
        Ok(r) => r,
        Err(e) => {
            println!("HARNESS-ERROR cannot load replay: {e}");
            return EXIT_HARNESS;
        }
    };
    let quiet = std::env::var("VERIF_QUIET").is_ok();
    // watchdog for hang replays
    let (tx, rx) = std::sync::mpsc::channel();
    let out = std::thread::scope(|s| {
        s.spawn(|| {
            let o = guarded_execute(p, &rf.case, true);
            let _ = tx.send(());
            o
        });
        if rx.recv_timeout(RUN_HANG_LIMIT + Duration::from_secs(5)).is_err() {
            println!("REPRODUCED invariant={}.hang (no return within the wall-clock limit)", p.id());
            std::process::exit(EXIT_VIOLATION);
        }
        // second execution for the value (cheap; keeps the scoped-thread code simple)
        guarded_execute(p, &rf.case, true)
    });
    let out = match out {
        Ok(o) => o,
        Err(e) => {
            println!("HARNESS-ERROR {e}");
            return EXIT_HARNESS;
        }
    };
    if !quiet {
        for l in &out.trace {
            println!("  {l}");
        }
    }
    match out.violation {
        Some(v) => {
            let same_trace = rf.trace.is_empty() || rf.trace == out.trace;
            if v.invariant == rf.invariant {
                println!("REPRODUCED invariant={} trace_identical={}", v.invariant, same_trace);
                println!("  {}", v.message);
                if !same_trace {
                    println!("HARNESS-ERROR trace differs from the recorded one");
                    return EXIT_HARNESS;
                }
                EXIT_VIOLATION
            } else {
                println!("DIFFERENT invariant={} (recorded {})", v.invariant, rf.invariant);
                println!("  {}", v.message);
                EXIT_VIOLATION
            }
        }
        None => {
            println!("CLEAN recorded invariant={} did not reproduce", rf.invariant);
            EXIT_OK
        }
    }
}

/// Per-run seed derivation used by all properties.
pub fn run_seed(verif_seed: u64, property: &str, run: u64) -> u64 {
    mix(verif_seed, property, run)
}
