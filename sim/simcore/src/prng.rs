//! Seeded PRNG: one integer decides everything.
//!
//! `SplitMix64` is used to derive seeds (hash-like mixing), `Rng` is
//! xoshiro256** seeded from it.  Nothing here reads a clock, thread id or
//! address, so a run is a pure function of its seed.

#[inline]
pub fn splitmix64(state: &mut u64) -> u64 {
    *state = state.wrapping_add(0x9E37_79B9_7F4A_7C15);
    let mut z = *state;
    z = (z ^ (z >> 30)).wrapping_mul(0xBF58_476D_1CE4_E5B9);
    z = (z ^ (z >> 27)).wrapping_mul(0x94D0_49BB_1331_11EB);
    z ^ (z >> 31)
}

/// Mix a seed with a label and an index into a new, well spread seed.
pub fn mix(seed: u64, label: &str, idx: u64) -> u64 {
    let mut h = seed ^ 0xA076_1D64_78BD_642F;
    for b in label.as_bytes() {
        h = (h ^ (*b as u64)).wrapping_mul(0x0000_0100_0000_01B3);
    }
    let mut s = h ^ idx.wrapping_mul(0xD6E8_FEB8_6659_FD93);
    let a = splitmix64(&mut s);
    let b = splitmix64(&mut s);
    a ^ b.rotate_left(17)
}

#[derive(Clone, Debug)]
pub struct Rng {
    s: [u64; 4],
    pub draws: u64,
}

impl Rng {
    pub fn new(seed: u64) -> Self {
        let mut sm = seed;
        let s = [splitmix64(&mut sm), splitmix64(&mut sm), splitmix64(&mut sm), splitmix64(&mut sm)];
        Rng { s, draws: 0 }
    }
    pub fn derive(seed: u64, label: &str, idx: u64) -> Self {
        Self::new(mix(seed, label, idx))
    }
    #[inline]
    pub fn next_u64(&mut self) -> u64 {
        self.draws += 1;
        let result = self.s[1].wrapping_mul(5).rotate_left(7).wrapping_mul(9);
        let t = self.s[1] << 17;
        self.s[2] ^= self.s[0];
        self.s[3] ^= self.s[1];
        self.s[1] ^= self.s[2];
        self.s[0] ^= self.s[3];
        self.s[2] ^= t;
        self.s[3] = self.s[3].rotate_left(45);
        result
    }
    #[inline]
    pub fn next_u32(&mut self) -> u32 {
        (self.next_u64() >> 32) as u32
    }
    /// Uniform in 0..n (n > 0).
    #[inline]
    pub fn below(&mut self, n: u64) -> u64 {
        debug_assert!(n > 0);
        // multiply-shift; bias is negligible for our n
        ((self.next_u64() as u128 * n as u128) >> 64) as u64
    }
    #[inline]
    pub fn range(&mut self, lo: i64, hi_incl: i64) -> i64 {
        lo + self.below((hi_incl - lo + 1) as u64) as i64
    }
    #[inline]
    pub fn usize_below(&mut self, n: usize) -> usize {
        self.below(n as u64) as usize
    }
    /// true with probability num/den
    #[inline]
    pub fn chance(&mut self, num: u64, den: u64) -> bool {
        self.below(den) < num
    }
    pub fn pick<'a, T>(&mut self, xs: &'a [T]) -> &'a T {
        &xs[self.usize_below(xs.len())]
    }
    pub fn pick_copy<T: Copy>(&mut self, xs: &[T]) -> T {
        xs[self.usize_below(xs.len())]
    }
    /// Weighted choice: returns index.
    pub fn weighted(&mut self, weights: &[u32]) -> usize {
        let total: u64 = weights.iter().map(|w| *w as u64).sum();
        let mut r = self.below(total.max(1));
        for (i, w) in weights.iter().enumerate() {
            if r < *w as u64 {
                return i;
            }
            r -= *w as u64;
        }
        weights.len() - 1
    }
    pub fn bytes(&mut self, n: usize) -> Vec<u8> {
        let mut v = Vec::with_capacity(n);
        while v.len() < n {
            let x = self.next_u64().to_le_bytes();
            for b in x {
                if v.len() < n {
                    v.push(b);
                }
            }
        }
        v
    }
    pub fn fill(&mut self, out: &mut [u8]) {
        let b = self.bytes(out.len());
        out.copy_from_slice(&b);
    }
    pub fn shuffle<T>(&mut self, xs: &mut [T]) {
        for i in (1..xs.len()).rev() {
            let j = self.usize_below(i + 1);
            xs.swap(i, j);
        }
    }
}

/// FNV-1a style 64-bit hash used for trace-shape / state hashes (stable across
/// runs and platforms; never `std::collections::hash_map::RandomState`).
#[derive(Clone, Copy)]
pub struct Fnv(pub u64);
impl Default for Fnv {
    fn default() -> Self {
        Fnv(0xcbf2_9ce4_8422_2325)
    }
}
impl Fnv {
    pub fn new() -> Self {
        Self::default()
    }
    #[inline]
    pub fn u8(&mut self, b: u8) {
        self.0 = (self.0 ^ b as u64).wrapping_mul(0x0000_0100_0000_01B3);
    }
    pub fn bytes(&mut self, bs: &[u8]) {
        for b in bs {
            self.u8(*b);
        }
    }
    pub fn u64(&mut self, x: u64) {
        self.bytes(&x.to_le_bytes());
    }
    pub fn str(&mut self, s: &str) {
        self.bytes(s.as_bytes());
        self.u8(0xff);
    }
    pub fn finish(&self) -> u64 {
        let mut s = self.0;
        splitmix64(&mut s)
    }
}

#[cfg(test)]
mod tests {
    use super::*;
    #[test]
    fn deterministic() {
        let mut a = Rng::new(7);
        let mut b = Rng::new(7);
        for _ in 0..100 {
            assert_eq!(a.next_u64(), b.next_u64());
        }
        assert_ne!(mix(1, "a", 0), mix(1, "a", 1));
        assert_ne!(mix(1, "a", 0), mix(1, "b", 0));
    }
}
