//! Shared machinery for the deterministic-simulation checks: PRNG, generic
//! run driver (parallel, worker-count independent), delta-debugging shrinker,
//! replay files, known-findings handling and evidence output.

pub mod driver;
pub mod prng;
pub mod shrink;

pub use driver::*;
pub use prng::{mix, Fnv, Rng};
