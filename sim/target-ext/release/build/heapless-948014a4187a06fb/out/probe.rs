
#![no_std]

// `no_mangle` forces codegen, which makes llvm check the contents of the `asm!` macro
#[no_mangle]
unsafe fn asm() {
    core::arch::asm!("clrex");
}
