//! physim — deterministic simulation with fault injection for the lora-phy drivers (C14, C18).
fn main() {
    println!("HARNESS-ERROR physim not built yet");
    std::process::exit(2);
}
