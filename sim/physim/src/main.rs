//! physim — command line (see lib.rs).

use physim::*;
use simcore::*;
use std::path::Path;

fn usage() -> i32 {
    eprintln!("usage: physim check <C14|C18> <quick|thorough>\n       physim replay <file>\n       physim selftest");
    EXIT_HARNESS
}

macro_rules! dispatch {
    ($id:expr, $f:ident, $($arg:expr),*) => {
        match $id {
            "C14" => $f(&c14::C14, $($arg),*),
            "C18" => $f(&c18::C18, $($arg),*),
            other => {
                println!("HARNESS-ERROR unknown property {other}");
                EXIT_HARNESS
            }
        }
    };
}

fn mkreplay_for<P: Property>(p: &P, case_path: &Path, out: &Path) -> i32 {
    install_quiet_panic_hook();
    let text = match std::fs::read_to_string(case_path) {
        Ok(t) => t,
        Err(e) => {
            println!("HARNESS-ERROR {e}");
            return EXIT_HARNESS;
        }
    };
    let case: P::Case = match serde_json::from_str(&text) {
        Ok(c) => c,
        Err(e) => {
            println!("HARNESS-ERROR case does not parse: {e}");
            return EXIT_HARNESS;
        }
    };
    let o = match guarded_execute(p, &case, true) {
        Ok(o) => o,
        Err(e) => {
            println!("HARNESS-ERROR {e}");
            return EXIT_HARNESS;
        }
    };
    let Some(v) = o.violation else {
        println!("CLEAN the case does not violate");
        return EXIT_OK;
    };
    use simcore::shrink::Shrinkable;
    let rf = ReplayFile {
        property: p.id().to_string(),
        invariant: v.invariant.clone(),
        signature: v.signature.clone(),
        message: v.message.clone(),
        verif_seed: 0,
        run: 0,
        tier: "manual".into(),
        original_parts: case.parts(),
        minimised_parts: case.parts(),
        shrink_executions: 0,
        case,
        trace: o.trace,
    };
    if let Err(e) = write_replay(out, &rf) {
        println!("HARNESS-ERROR {e}");
        return EXIT_HARNESS;
    }
    println!("WROTE {} signature={}", out.display(), v.signature);
    EXIT_VIOLATION
}

fn mkreplay(id: &str, case_path: &Path, out: &Path) -> i32 {
    dispatch!(id, mkreplay_for, case_path, out)
}

fn main() {
    let args: Vec<String> = std::env::args().skip(1).collect();
    let code = match args.first().map(|s| s.as_str()) {
        Some("check") if args.len() >= 3 => {
            let tier = match args[2].as_str() {
                "quick" => Tier::Quick,
                "thorough" => Tier::Thorough,
                _ => std::process::exit(usage()),
            };
            let tier = match std::env::var("VERIF_TIER").ok().as_deref() {
                Some("quick") => Tier::Quick,
                Some("thorough") => Tier::Thorough,
                _ => tier,
            };
            let opts = Opts::from_env(tier);
            let id = args[1].as_str();
            dispatch!(id, run_check, &opts)
        }
        Some("replay") if args.len() >= 2 => {
            let path = Path::new(&args[1]);
            match replay_property(path) {
                Ok(id) => {
                    let id = id.as_str();
                    dispatch!(id, run_replay, path)
                }
                Err(e) => {
                    println!("HARNESS-ERROR {e}");
                    EXIT_HARNESS
                }
            }
        }
        // physim mkreplay <C14|C18> <case.json> <out.json>: execute a hand-written case and store it as a replay file
        Some("mkreplay") if args.len() >= 4 => mkreplay(&args[1], Path::new(&args[2]), Path::new(&args[3])),
        Some("selftest") => match c14::self_test().and_then(|_| c18::self_test()) {
            Ok(()) => {
                println!("chip models and seams: self-test ok");
                0
            }
            Err(e) => {
                println!("HARNESS-ERROR self-test failed: {e}");
                EXIT_HARNESS
            }
        },
        _ => usage(),
    };
    std::process::exit(code);
}
