//! C18 — reading a received packet never overruns the caller's buffer.
//!
//! The chip model lies: after RxDone it reports an arbitrary (length, offset), arbitrary status bytes and
//! arbitrary rssi/snr bytes. The packet is fetched through the chip driver (`get_rx_payload` +
//! `get_rx_packet_status`), through `LoRa::complete_rx` / `LoRa::get_rx_result`, and through the LoRaWAN
//! adapter (`rx_single` / `rx_continuous`) into a canary-filled buffer.

use crate::chip126x::{pattern, Lie, Outcome as ChipOutcome};
use crate::chip127x::Lie127;
use crate::rig::*;
use crate::with_radio_kind;
use crate::world::*;
use lora_phy::lorawan_radio::LorawanRadio;
use lora_phy::mod_params::RadioError;
use lora_phy::mod_traits::RadioKind;
use lora_phy::{LoRa, RxMode};
use lorawan_device::async_device::radio::{PhyRxTx, RfConfig, RxConfig, RxMode as LwRxMode, RxStatus};
use serde::{Deserialize, Serialize};
use simcore::shrink::Shrinkable;
use simcore::*;
use std::collections::BTreeSet;

pub struct C18;

#[derive(Clone, Copy, Debug, PartialEq, Eq, Serialize, Deserialize)]
pub enum Via {
    /// `RadioKind::get_rx_payload` + `get_rx_packet_status` on the chip driver
    Driver,
    /// `LoRa::complete_rx`
    CompleteRx,
    /// `LoRa::get_rx_result`
    GetRxResult,
    /// `LorawanRadio::rx_single`
    LwSingle,
    /// `LorawanRadio::rx_continuous`
    LwContinuous,
}
const ALL_VIAS: [Via; 5] = [Via::Driver, Via::CompleteRx, Via::GetRxResult, Via::LwSingle, Via::LwContinuous];
pub const BUF_SIZES: [u16; 6] = [0, 1, 12, 64, 255, 256];

#[derive(Clone, Debug, Serialize, Deserialize)]
pub struct C18Case {
    pub chip: ChipKind,
    pub board: Board,
    pub via: Via,
    pub continuous: bool,
    pub implicit: bool,
    /// configured payload length (what implicit-header mode delivers)
    pub cfg_len: u8,
    /// caller buffer size
    pub buf: u16,
    /// what the chip reports after RxDone
    pub len: u8,
    pub offset: u8,
    pub status_buf: u8,
    pub status_pkt: u8,
    pub rssi: u8,
    pub snr: u8,
    pub sig_rssi: u8,
    /// chip buffer pattern / canary seed
    pub seed: u8,
    /// SPI fault on the k-th SPI transaction after RxDone
    pub fault_at: Option<u16>,
    /// the faulted SPI transaction reaches the chip (side effects happen) before it is reported as failed
    #[serde(default)]
    pub fault_late: bool,
    /// continuous reception through `LoRa::complete_rx`: after the first packet has been fetched (or the fetch has
    /// failed) a second packet arrives for which the chip reports (length, offset); the second fetch is the one judged
    #[serde(default)]
    pub second: Option<(u8, u8)>,
    /// modulation the reception is prepared with (index into exec14::dr_params: SF7/125, SF9/125, SF12/125 with
    /// low-data-rate optimisation, SF7/250, SF8/500)
    #[serde(default)]
    pub dr: u8,
    /// known-finding triggers this case must stay away from (copied from the generator's avoid set)
    #[serde(default)]
    pub avoid: Vec<String>,
}

/// Known-finding avoid tag: SX126x `get_rx_packet_status` overflows on raw SNR bytes 0x7E / 0x7F.
pub const TAG_SNR: &str = "sx126x-snr-overflow";

impl C18Case {
    /// Apply the avoid tags and the constraints of the chosen path. Execution always goes through this, so a
    /// shrunk case can never drift into a known finding.
    fn sanitised(&self) -> C18Case {
        let mut c = self.clone();
        if matches!(c.via, Via::LwSingle | Via::LwContinuous) {
            c.implicit = false; // the adapter always receives with explicit header, max length 255
            c.cfg_len = 255;
            c.continuous = c.via == Via::LwContinuous;
        }
        if c.avoid.iter().any(|t| t == TAG_SNR) && c.chip.is_126x() && c.snr >= 0x7E && c.snr <= 0x7F {
            c.snr = 0x7D;
        }
        c
    }
}

impl Shrinkable for C18Case {
    fn parts(&self) -> usize {
        0
    }
    fn without(&self, _lo: usize, _hi: usize) -> Self {
        self.clone()
    }
    fn simplifications(&self) -> Vec<Self> {
        let mut v = Vec::new();
        let push = |f: &dyn Fn(&mut C18Case), v: &mut Vec<C18Case>| {
            let mut c = self.clone();
            f(&mut c);
            if serde_json::to_string(&c).ok() != serde_json::to_string(self).ok() {
                v.push(c);
            }
        };
        push(&|c| c.fault_at = None, &mut v);
        push(&|c| c.fault_late = false, &mut v);
        push(&|c| c.second = None, &mut v);
        push(&|c| c.via = Via::Driver, &mut v);
        push(&|c| c.board = Board::default(), &mut v);
        push(&|c| c.continuous = false, &mut v);
        push(&|c| c.implicit = false, &mut v);
        push(&|c| c.status_buf = 0, &mut v);
        push(&|c| c.status_pkt = 0, &mut v);
        push(&|c| c.rssi = 0, &mut v);
        push(&|c| c.sig_rssi = 0, &mut v);
        push(&|c| c.snr = 0, &mut v);
        push(&|c| c.offset = 0, &mut v);
        push(&|c| c.len = 0, &mut v);
        push(&|c| c.len /= 2, &mut v);
        push(&|c| c.len = c.len.saturating_sub(1), &mut v);
        push(&|c| c.cfg_len = 0, &mut v);
        push(&|c| c.cfg_len /= 2, &mut v);
        push(&|c| c.buf = 0, &mut v);
        push(&|c| c.buf /= 2, &mut v);
        push(&|c| c.seed = 0, &mut v);
        push(&|c| c.dr = 0, &mut v);
        push(&|c| c.chip = if c.chip.is_126x() { ChipKind::Sx1261 } else { ChipKind::Sx1276 }, &mut v);
        v
    }
}

fn canary(seed: u8, i: usize) -> u8 {
    // odd values only: can never coincide with the (even) chip-buffer pattern
    ((i as u8).wrapping_mul(29).wrapping_add(seed)) | 1
}

#[derive(Debug)]
enum Fetched {
    Ok(usize),
    Err(String),
    Timeout,
    Hung,
}

struct Ctx<'a> {
    case: &'a C18Case,
    world: WorldRef,
    /// the second packet was really announced to the second fetch (it was not served by a packet still latched)
    second_applied: std::cell::Cell<bool>,
}

impl Ctx<'_> {
    /// The chip has received "a packet": raise RxDone, then make it lie.
    fn rx_done(&self, w: &mut World) -> bool {
        let c = self.case;
        self.rx_done_with(w, c.len, c.offset, true)
    }
    fn rx_done_with(&self, w: &mut World, len: u8, offset: u8, arm_fault: bool) -> bool {
        let c = self.case;
        let applied = match &mut w.chip {
            Chip::C126(ch) => {
                let ok = ch.apply_outcome(&mut w.env, ChipOutcome::Done, &[], false);
                ch.fill_pattern(c.seed);
                ch.lie = Some(Lie { len, offset, status_buf: c.status_buf, status_pkt: c.status_pkt, rssi: c.rssi, snr: c.snr, sig_rssi: c.sig_rssi });
                ok
            }
            Chip::C127(ch) => {
                let ok = ch.apply_outcome(&mut w.env, ChipOutcome::Done, &[], false);
                ch.fill_pattern(c.seed);
                ch.set_lie(Lie127 { len, offset, rssi: c.rssi, snr: c.snr });
                ok
            }
        };
        if let (Some(k), true) = (c.fault_at, arm_fault) {
            w.fault = Some(Fault { kind: if c.fault_late { FaultKind::SpiLate } else { FaultKind::Spi }, at: w.call.spi + k });
        }
        w.env.tr(|| format!("chip: RxDone; reports len={} offset={} status={:#04x}/{:#04x} rssi={:#04x} snr={:#04x}", len, offset, c.status_buf, c.status_pkt, c.rssi, c.snr));
        applied
    }
}

fn must<T, E: std::fmt::Debug>(what: &str, d: Driven<Result<T, E>>) -> T {
    match d {
        Driven::Ready(Ok(v)) => v,
        Driven::Ready(Err(e)) => panic!("harness: fault-free {what} failed: {e:?}"),
        Driven::Dropped(p) => panic!("harness: fault-free {what} stayed pending ({p:?})"),
    }
}

fn run<RK: RadioKind>(rk: RK, cx: &Ctx<'_>, buf: &mut [u8]) -> Result<Fetched, DevicePanic> {
    let c = cx.case;
    let world = &cx.world;
    world.borrow_mut().begin_call("setup", None);
    let lora = must("LoRa::new", drive_now(world, LoRa::new(rk, true, SimDelay(world.clone()))));
    let mut radio: LorawanRadio<RK, SimDelay, 22, 0> = lora.into();
    let freq = 868_100_000u32;
    match c.via {
        Via::LwSingle | Via::LwContinuous => {
            let bb = lorawan_device::async_device::radio::RfConfig {
                frequency: freq,
                bb: {
                    let (sf, bw, cr) = crate::exec14::dr_params(c.dr);
                    lora_modulation::BaseBandModulationParams::new(sf, bw, cr)
                },
                max_payload_len: 255,
            };
            let _: &RfConfig = &bb;
            let mode = if c.via == Via::LwSingle { LwRxMode::Single { ms: 10 } } else { LwRxMode::Continuous };
            must("setup_rx", drive_now(world, radio.setup_rx(RxConfig { rf: bb, mode })));
            world.borrow_mut().begin_call("rx", None);
            guarded(|| {
                let mut fired = false;
                let on_pend = |w: &mut World, p: Pend| {
                    if p == Pend::Irq && !fired {
                        fired = true;
                        cx.rx_done(w)
                    } else {
                        false
                    }
                };
                if c.via == Via::LwSingle {
                    match drive(world, radio.rx_single(buf), on_pend) {
                        Driven::Ready(Ok(RxStatus::Rx(n, _q))) => Fetched::Ok(n),
                        Driven::Ready(Ok(RxStatus::RxTimeout)) => Fetched::Timeout,
                        Driven::Ready(Err(e)) => Fetched::Err(format!("{e:?}")),
                        Driven::Dropped(_) => Fetched::Hung,
                    }
                } else {
                    match drive(world, radio.rx_continuous(buf), on_pend) {
                        Driven::Ready(Ok((n, _q))) => Fetched::Ok(n),
                        Driven::Ready(Err(e)) => Fetched::Err(format!("{e:?}")),
                        Driven::Dropped(_) => Fetched::Hung,
                    }
                }
            })
        }
        Via::Driver | Via::CompleteRx | Via::GetRxResult => {
            let lora = radio.verif_lora();
            let (sf, bw, cr) = crate::exec14::dr_params(c.dr);
            let mdltn = lora.create_modulation_params(sf, bw, cr, freq).expect("harness: modulation params");
            let pkt = lora.create_rx_packet_params(8, c.implicit, c.cfg_len, true, true, &mdltn).expect("harness: packet params");
            let mode = if c.continuous { RxMode::Continuous } else { RxMode::Single(20) };
            must("prepare_for_rx", drive_now(world, lora.prepare_for_rx(mode, &mdltn, &pkt)));
            must("start_rx", drive_now(world, lora.start_rx()));
            world.borrow_mut().begin_call("rx", None);
            let conv = |d: Driven<Result<usize, RadioError>>| match d {
                Driven::Ready(Ok(n)) => Fetched::Ok(n),
                Driven::Ready(Err(RadioError::ReceiveTimeout)) => Fetched::Timeout,
                Driven::Ready(Err(e)) => Fetched::Err(format!("{e:?}")),
                Driven::Dropped(_) => Fetched::Hung,
            };
            guarded(|| match c.via {
                Via::CompleteRx => {
                    let mut fired = false;
                    let first = conv(drive(world, async { lora.complete_rx(&pkt, buf).await.map(|(n, _)| n as usize) }, |w, p| {
                        if p == Pend::Irq && !fired {
                            fired = true;
                            cx.rx_done(w)
                        } else {
                            false
                        }
                    }));
                    match (c.second, c.continuous) {
                        (Some((len2, off2)), true) => {
                            // the receiver keeps running: the caller re-arms its buffer and waits for the next packet
                            for (i, b) in buf.iter_mut().enumerate() {
                                *b = canary(c.seed, i);
                            }
                            world.borrow_mut().begin_call("rx-second", None);
                            world.borrow_mut().env.bump("probe.second-packet-in-continuous-reception");
                            world.borrow_mut().env.tr(|| format!("first fetch: {first:?}; a second packet arrives"));
                            let mut fired = false;
                            conv(drive(world, async { lora.complete_rx(&pkt, buf).await.map(|(n, _)| n as usize) }, |w, p| {
                                if p == Pend::Irq && !fired {
                                    fired = true;
                                    cx.second_applied.set(true);
                                    cx.rx_done_with(w, len2, off2, false)
                                } else {
                                    false
                                }
                            }))
                        }
                        _ => first,
                    }
                }
                Via::GetRxResult => {
                    cx.rx_done(&mut world.borrow_mut());
                    let mut r = conv(drive_now(world, async { lora.get_rx_result(&pkt, buf).await.map(|(n, _)| n as usize) }));
                    if c.fault_at.is_some() && matches!(&r, Fetched::Err(e) if e.contains("SPI")) {
                        // the bus error was transient: the caller re-arms its buffer and fetches the same packet again
                        for (i, b) in buf.iter_mut().enumerate() {
                            *b = canary(c.seed, i);
                        }
                        world.borrow_mut().begin_call("rx-retry", None);
                        world.borrow_mut().env.bump("probe.fetch-retried-after-bus-error");
                        r = conv(drive_now(world, async { lora.get_rx_result(&pkt, buf).await.map(|(n, _)| n as usize) }));
                    }
                    r
                }
                _ => {
                    cx.rx_done(&mut world.borrow_mut());
                    let rk = lora.verif_radio_kind();
                    let mut r = conv(drive_now(world, async {
                        let n = rk.get_rx_payload(&pkt, buf).await?;
                        // the status conversion that follows the read is part of the property
                        let _st = rk.get_rx_packet_status().await?;
                        Ok(n as usize)
                    }));
                    if c.fault_at.is_some() && matches!(&r, Fetched::Err(e) if e.contains("SPI")) {
                        for (i, b) in buf.iter_mut().enumerate() {
                            *b = canary(c.seed, i);
                        }
                        world.borrow_mut().begin_call("rx-retry", None);
                        world.borrow_mut().env.bump("probe.fetch-retried-after-bus-error");
                        r = conv(drive_now(world, async {
                            let n = rk.get_rx_payload(&pkt, buf).await?;
                            let _st = rk.get_rx_packet_status().await?;
                            Ok(n as usize)
                        }));
                    }
                    r
                }
            })
        }
    }
}

fn execute_case(case: &C18Case, want_trace: bool) -> simcore::Outcome {
    let mut c = case.sanitised();
    if !(c.via == Via::CompleteRx && c.continuous) {
        c.second = None;
    }
    let world = make_world(c.chip, c.board, want_trace);
    let mut stats = RunStats::default();
    let mut buf: Vec<u8> = (0..c.buf as usize).map(|i| canary(c.seed, i)).collect();
    let cx = Ctx { case: &c, world: world.clone(), second_applied: std::cell::Cell::new(false) };
    let res = with_radio_kind!(c.chip, c.board, world, |rk| guarded(|| run(rk, &cx, &mut buf)).and_then(|r| r));
    // with a second packet it is the second fetch that is judged, against what the chip reported for that packet
    // (when the first fetch failed before the chip's RxDone flag was cleared, the second call is served by the first
    // packet, which is still latched: then it is judged against the first report)
    let judged = match (c.second, cx.second_applied.get()) {
        (Some((len2, off2)), true) => C18Case { len: len2, offset: off2, fault_at: None, ..c.clone() },
        _ => c.clone(),
    };
    let c = judged;

    let fam = c.chip.family();
    let mut violation: Option<Violation> = None;
    let reported = if c.implicit { c.cfg_len } else { c.len } as usize;
    let kind: &'static str;
    match &res {
        Err(p) => {
            kind = "panic";
            let loc = short_loc(&p.loc);
            violation = Some(Violation::new(
                "C18.panic",
                &format!("{fam}|{loc}"),
                format!("fetching the packet panicked at {} ({}): chip reported len={} offset={} status={:#04x}/{:#04x} rssi={:#04x} snr={:#04x} sig={:#04x}, caller buffer {} bytes, via {:?}", p.loc, p.msg, c.len, c.offset, c.status_buf, c.status_pkt, c.rssi, c.snr, c.sig_rssi, c.buf, c.via),
            ));
        }
        Ok(Fetched::Ok(n)) => {
            kind = "ok";
            let n = *n;
            let via_adapter = matches!(c.via, Via::LwSingle | Via::LwContinuous);
            if n > buf.len() {
                violation = Some(Violation::new("C18.length-exceeds-buffer", fam, format!("returned length {n} exceeds the caller's buffer of {} bytes (chip reported len={} offset={})", buf.len(), c.len, c.offset)));
            } else {
                let want: Vec<u8> = (0..n).map(|i| pattern(c.seed, c.offset.wrapping_add(i as u8))).collect();
                if c.implicit && n != c.cfg_len as usize {
                    violation = Some(Violation::new("C18.wrong-bytes", &format!("{fam}|implicit-length"), format!("implicit-header mode with configured length {}: returned length {n}", c.cfg_len)));
                } else if !c.implicit && n != c.len as usize {
                    violation = Some(Violation::new("C18.wrong-length", fam, format!("explicit-header mode: the chip reported a packet of {} bytes at offset {} but the returned length is {n} (via {:?})", c.len, c.offset, c.via)));
                } else if buf[..n] != want[..] {
                    let id = if via_adapter { "C18.mac-saw-other-bytes" } else { "C18.wrong-bytes" };
                    violation = Some(Violation::new(id, fam, format!("returned {n} bytes {} but the chip buffer at offset {} holds {} (via {:?})", hex(&buf[..n]), c.offset, hex(&want), c.via)));
                } else if let Some(i) = (n..buf.len()).find(|i| buf[*i] != canary(c.seed, *i)) {
                    violation = Some(Violation::new("C18.canary-overwritten", fam, format!("byte {i} of the caller's buffer (beyond the returned length {n}) was overwritten with {:#04x}", buf[i])));
                }
                if n != reported {
                    stats.bump("probe.returned-length-differs-from-reported");
                }
                if c.offset as usize + n > 256 {
                    stats.bump("probe.wrap-around-read");
                }
                if n == buf.len() && n > 0 {
                    stats.bump("probe.exact-fit");
                }
                if n == 0 {
                    stats.bump("probe.zero-length-packet");
                }
                if via_adapter {
                    stats.bump("probe.adapter-handed-bytes-to-mac");
                }
            }
        }
        Ok(Fetched::Err(e)) => {
            kind = if e.contains("PayloadSizeMismatch") {
                "err-size"
            } else if e.contains("OpError") {
                "err-status"
            } else if e.contains("SPI") {
                "err-spi"
            } else {
                "err-other"
            };
            match kind {
                "err-size" => stats.bump("probe.refused-len-exceeds-buffer"),
                "err-status" => stats.bump("probe.refused-error-status"),
                "err-spi" => {}
                _ => stats.bump("probe.other-error"),
            }
        }
        Ok(Fetched::Timeout) => kind = "timeout",
        Ok(Fetched::Hung) => kind = "hung",
    }
    {
        let mut w = world.borrow_mut();
        if let Some(a) = w.env.alerts.first() {
            // C14's monitors are not judged here, but a chip-model alert in this simple flow would be a harness bug
            stats.bump("probe.c14-alert-in-c18-run");
            let _ = a;
        }
        for (k, v) in std::mem::take(&mut w.env.counters) {
            stats.add(k, v);
        }
        stats.sim_ms = w.env.now_us / 1000;
        stats.steps = w.call.spi as u64;
    }
    if reported > c.buf as usize {
        stats.bump("probe.len-exceeds-buffer");
    }
    if c.implicit {
        stats.bump("probe.implicit-header");
    }
    if c.buf == 0 {
        stats.bump("probe.zero-size-buffer");
    }
    if c.chip.is_126x() && (c.status_buf >> 1) & 7 >= 3 && (c.status_buf >> 1) & 7 <= 5 {
        stats.bump("probe.error-status-code");
    }
    if c.chip.is_126x() {
        stats.bump("probe.chip-sx126x");
    } else {
        stats.bump("probe.chip-sx127x");
    }
    stats.nontrivial = !matches!(kind, "hung" | "timeout");
    let mut h = Fnv::new();
    h.str(fam);
    h.str(&format!("{:?}", c.via));
    h.str(kind);
    h.u8(c.implicit as u8);
    h.u8((reported > c.buf as usize) as u8);
    h.u8((c.offset as usize + reported > 256) as u8);
    h.u8(c.fault_at.is_some() as u8);
    h.u64(c.buf as u64);
    stats.shape = h.finish();
    let mut s = Fnv::new();
    s.str(fam);
    s.u64(reported as u64);
    s.u64(c.offset as u64);
    s.u64(c.buf as u64);
    s.u8(c.implicit as u8);
    s.str(&format!("{:?}", c.via));
    stats.states.push(s.finish());
    let trace = {
        let mut w = world.borrow_mut();
        let mut t = w.env.trace.take().unwrap_or_default();
        if want_trace {
            t.push(format!("result: {:?}", res.as_ref().map_err(|p| format!("PANIC {} at {}", p.msg, p.loc))));
            t.push(format!("buffer after the call: {}", hex(&buf)));
        }
        t
    };
    simcore::Outcome { violation, stats, trace }
}

const GRID: u64 = 256 * 256 * 6 * 2 * 8; // len x offset x buffer size x chip family x (header mode, access path)
/// explicit header through all five paths, implicit header through the three LoRa-level paths
const PATHS: [(bool, Via); 8] = [(false, Via::Driver), (false, Via::CompleteRx), (false, Via::GetRxResult), (false, Via::LwSingle), (false, Via::LwContinuous), (true, Via::Driver), (true, Via::CompleteRx), (true, Via::GetRxResult)];

fn boundary_u8(r: &mut Rng, around: &[u16]) -> u8 {
    if r.chance(1, 2) {
        let a = *r.pick(around) as i64 + r.range(-1, 1);
        a.clamp(0, 255) as u8
    } else {
        r.below(256) as u8
    }
}

fn fill_random(r: &mut Rng, c: &mut C18Case, family_126: bool) {
    c.chip = if family_126 { *r.pick(&[ChipKind::Sx1261, ChipKind::Sx1262, ChipKind::Stm32wl]) } else { *r.pick(&[ChipKind::Sx1272, ChipKind::Sx1276]) };
    c.board = Board { tcxo: r.chance(1, 4), dcdc: r.chance(1, 4), rx_boost: r.chance(1, 2), tx_boost: r.chance(1, 2) };
    c.via = if c.implicit { *r.pick(&[Via::Driver, Via::CompleteRx, Via::GetRxResult]) } else { *r.pick(&ALL_VIAS) };
    c.continuous = r.chance(1, 3);
    // status bytes: half of the time one of the error classes (command status 3, 4, 5), else anything
    c.status_buf = if r.chance(1, 4) { ((r.range(3, 5) as u8) << 1) | ((r.below(8) as u8) << 4) | (r.below(2) as u8) } else if r.chance(1, 2) { 0x24 } else { r.below(256) as u8 };
    c.status_pkt = if r.chance(1, 6) { ((r.range(3, 5) as u8) << 1) | ((r.below(8) as u8) << 4) } else if r.chance(1, 2) { 0x24 } else { r.below(256) as u8 };
    c.rssi = boundary_u8(r, &[0, 255, 128]);
    c.snr = boundary_u8(r, &[0, 127, 128, 255, 0x7E]);
    c.sig_rssi = boundary_u8(r, &[0, 255]);
    c.seed = r.below(256) as u8;
    c.fault_at = if r.chance(1, 12) { Some(r.below(8) as u16) } else { None };
    c.fault_late = c.fault_at.is_some() && r.chance(1, 2);
    c.second = if r.chance(1, 3) { Some((boundary_u8(r, &[0, 12, 64, 255]), r.below(256) as u8)) } else { None };
}

impl Property for C18 {
    type Case = C18Case;
    fn id(&self) -> &'static str {
        "C18"
    }
    fn level(&self) -> &'static str {
        "fault_enumeration"
    }
    fn rule(&self) -> String {
        format!(
            "thorough: runs 0..{GRID} walk the full grid 256 reported lengths x 256 offsets x caller buffer sizes {{0,1,12,64,255,256}} x {{SX126x,SX127x}} x {{explicit header via driver get_rx_payload+get_rx_packet_status / LoRa::complete_rx / LoRa::get_rx_result / LorawanRadio::rx_single / rx_continuous, implicit header via the first three}} in a seeded affine order (implicit header: the length axis is the configured length and the chip-reported length is random); chip variant, board options, single/continuous mode, status bytes (error classes 3,4,5 over-sampled), rssi/snr/signal-rssi bytes and an optional SPI fault on one of the read transactions are seeded random per cell; further runs are boundary-biased random samples. quick: boundary-biased random samples only (lengths/offsets near 0, buffer size, 255, 256-len). A run is non-trivial when the fetch returned (Ok or Err) or panicked; distinct = (chip family, path, result class, header mode, len>buffer, wrap-around, fault, buffer size)."
        )
    }
    fn assumptions(&self) -> Vec<String> {
        vec![
            "the chip is a stub (ChipModel126x/127x in lying mode): it answers GetRxBufferStatus/GetPacketStatus (RegRxNbBytes/RegFifoRxCurrentAddr/RegPktSnr/RegPktRssi) with scripted bytes; its data buffer/FIFO holds a known pattern and wraps at 256".into(),
            "on Err nothing is demanded of the buffer contents; on Ok(len) with len smaller than the reported length the bytes are still checked against the chip buffer at the reported offset (statement silent on truncation)".into(),
            "an SPI fault means the transaction is not delivered and the HAL returns an error".into(),
            "the LoRaWAN adapter is driven directly through PhyRxTx::setup_rx / rx_single / rx_continuous (explicit header, max length 255), not through a MAC".into(),
        ]
    }
    fn components(&self) -> serde_json::Value {
        crate::components_phy()
    }
    fn budget(&self, tier: Tier) -> u64 {
        match tier {
            Tier::Quick => 4_000_000,
            Tier::Thorough => GRID + 1_000_000,
        }
    }
    fn generate(&self, seed: u64, run: u64, tier: Tier, avoid: &BTreeSet<String>) -> C18Case {
        let mut r = Rng::new(run_seed(seed, "C18", run));
        let mut c = C18Case {
            chip: ChipKind::Sx1261,
            board: Board::default(),
            via: Via::Driver,
            continuous: false,
            implicit: false,
            cfg_len: 0,
            buf: 0,
            len: 0,
            offset: 0,
            status_buf: 0,
            status_pkt: 0,
            rssi: 0,
            snr: 0,
            sig_rssi: 0,
            seed: 0,
            fault_at: None,
            fault_late: false,
            second: None,
            dr: *r.pick(&[0u8, 0, 1, 2, 2, 3, 4]),
            avoid: avoid.iter().cloned().collect(),
        };
        if tier == Tier::Thorough && run < GRID {
            // seeded affine permutation of the grid: a is coprime to GRID = 2^19 * 3
            let a = 1_000_003u64;
            let b = mix(seed, "C18-grid", 0) % GRID;
            let cell = (run.wrapping_mul(a).wrapping_add(b)) % GRID;
            let len = (cell & 0xFF) as u8;
            let offset = ((cell >> 8) & 0xFF) as u8;
            let rest = cell >> 16; // 0..96
            c.buf = BUF_SIZES[(rest % 6) as usize];
            let fam126 = (rest / 6) % 2 == 0;
            let (implicit, via) = PATHS[((rest / 12) % 8) as usize];
            c.implicit = implicit;
            fill_random(&mut r, &mut c, fam126);
            c.via = via;
            c.offset = offset;
            if c.implicit {
                c.cfg_len = len;
                c.len = r.below(256) as u8;
            } else {
                c.len = len;
                c.cfg_len = if r.chance(1, 2) { 255 } else { r.below(256) as u8 };
            }
            return c;
        }
        c.buf = *r.pick(&BUF_SIZES);
        c.implicit = r.chance(1, 3);
        let fam126 = r.chance(1, 2);
        fill_random(&mut r, &mut c, fam126);
        let b = c.buf;
        c.len = boundary_u8(&mut r, &[0, b, 255, 12, 64]);
        c.cfg_len = if c.implicit { boundary_u8(&mut r, &[0, b, 255]) } else { 255 };
        let l = if c.implicit { c.cfg_len } else { c.len } as u16;
        c.offset = boundary_u8(&mut r, &[0, 255, 256 - l.min(256), 128]);
        c
    }
    fn execute(&self, case: &C18Case, want_trace: bool) -> simcore::Outcome {
        execute_case(case, want_trace)
    }
    fn self_test(&self) -> Result<(), String> {
        self_test()
    }
    fn expected_probes(&self, _tier: Tier) -> Vec<&'static str> {
        vec![
            "probe.len-exceeds-buffer",
            "probe.refused-len-exceeds-buffer",
            "probe.refused-error-status",
            "probe.error-status-code",
            "probe.wrap-around-read",
            "probe.chip-buffer-wrap-around-read",
            "probe.implicit-header",
            "probe.zero-size-buffer",
            "probe.zero-length-packet",
            "probe.exact-fit",
            "probe.adapter-handed-bytes-to-mac",
            "probe.chip-sx126x",
            "probe.chip-sx127x",
            "fault.spi",
        ]
    }
    fn sample(&self, case: &C18Case) -> serde_json::Value {
        serde_json::to_value(case.sanitised()).unwrap_or(serde_json::Value::Null)
    }
}

/// Harness self-test: judges only the harness (pattern/canary disjointness, determinism), never the device under test.
pub fn self_test() -> Result<(), String> {
    install_quiet_panic_hook();
    for seed in 0..=255u8 {
        for i in 0..=255u8 {
            if pattern(seed, i) & 1 != 0 || canary(seed, i as usize) & 1 != 1 {
                return Err("C18 self-test: chip pattern and canary are not disjoint".into());
            }
        }
    }
    for chip in ALL_CHIPS {
        for via in ALL_VIAS {
            for (len, offset, bufsz) in [(12u8, 0u8, 64u16), (12, 250, 12), (65, 3, 64), (0, 0, 0)] {
                let c = C18Case { chip, board: Board::default(), via, continuous: false, implicit: false, cfg_len: 255, buf: bufsz, len, offset, status_buf: 0x24, status_pkt: 0x24, rssi: 80, snr: 20, sig_rssi: 80, seed: 7, fault_at: None, fault_late: false, second: None, dr: 0, avoid: vec![] };
                let o = guarded_execute(&C18, &c, true)?;
                let o2 = guarded_execute(&C18, &c, true)?;
                if o2.stats.shape != o.stats.shape || o2.stats.counters != o.stats.counters || o2.trace != o.trace {
                    return Err("C18 self-test: two executions of one case differ".into());
                }
            }
        }
    }
    Ok(())
}
