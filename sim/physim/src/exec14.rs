//! C14 executor: runs a script against the real `LoRa` / chip driver / `LorawanRadio` on the emulated chip and
//! applies the four monitors of DESIGN section 6 (C14) after every call, then the bounded-recovery probe.

use crate::chip126x::Outcome as ChipOutcome;
use crate::rig::*;
use crate::script::*;
use crate::world::*;
use lora_phy::lorawan_radio::{Error as LwError, LorawanRadio};
use lora_phy::mod_params::{Bandwidth, CodingRate, DutyCycleParams, ModulationParams, PacketParams, RadioError, RadioMode, SpreadingFactor};
use lora_phy::mod_traits::RadioKind;
use lora_phy::{LoRa, RxMode};
use lorawan_device::async_device::radio::{PhyRxTx, RfConfig, RxConfig, RxMode as LwRxMode, RxStatus, TxConfig};
use simcore::{Fnv, RunStats, Violation};

pub const TAG_CAD_SPURIOUS: &str = "cad-spurious-irq";
pub const TAG_127X_DUTY: &str = "sx127x-dutycycle-unsupported";
pub const TAG_DUTY_NO_WAKE: &str = "sx126x-dutycycle-no-wake";
pub const TAG_RX_READ_ERROR: &str = "rx-read-error-keeps-receive-mode";
/// init() that fails right after pulsing NRESET keeps the stale radio_mode (and, on the SX127x, never selects the LoRa page)
pub const TAG_INIT_FAULT: &str = "init-fault-stale-state";
/// Narrower successors of the two tags above, for what is left after the /repo fixes:
/// only `complete_rx` still polls an SX126x that may be in an RxDutyCycle sleep phase, and only the
/// SX127x still depends on the LoRa page selected inside `reset()`.
pub const TAG_DUTY_COMPLETE_RX: &str = "sx126x-dutycycle-complete-rx-polls-asleep";
pub const TAG_INIT_FAULT_127X: &str = "sx127x-init-fault-lora-page";

/// Driver-side mode, as a comparable value (RadioMode has no Debug/Eq).
#[derive(Clone, Copy, Debug, PartialEq, Eq)]
pub enum M {
    Sleep,
    Standby,
    Fs,
    Tx,
    RxSingle,
    RxContinuous,
    RxDuty,
    Listen,
    Cad,
}
impl M {
    fn of(m: RadioMode) -> M {
        match m {
            RadioMode::Sleep => M::Sleep,
            RadioMode::Standby => M::Standby,
            RadioMode::FrequencySynthesis => M::Fs,
            RadioMode::Transmit => M::Tx,
            RadioMode::Receive(RxMode::Single(_)) => M::RxSingle,
            RadioMode::Receive(RxMode::Continuous) => M::RxContinuous,
            RadioMode::Receive(RxMode::DutyCycle(_)) => M::RxDuty,
            RadioMode::Listen => M::Listen,
            RadioMode::ChannelActivityDetection => M::Cad,
        }
    }
    fn is_rx(self) -> bool {
        matches!(self, M::RxSingle | M::RxContinuous | M::RxDuty)
    }
    fn of_rxm(m: RxM) -> M {
        match m {
            RxM::Single(_) => M::RxSingle,
            RxM::Continuous => M::RxContinuous,
            RxM::Duty { .. } => M::RxDuty,
        }
    }
}

#[derive(Clone, Debug, PartialEq)]
pub enum Res {
    Ok,
    /// Ok with a received length
    OkRx(usize),
    /// adapter: rx_single reported a timeout
    OkTimeout,
    Refused,
    Err(String),
    /// future dropped at a wait (script said so, or nothing left that could complete it)
    Dropped,
    /// BUSY stuck high: the driver waits for a sleeping chip
    HungBusy,
    Panic(DevicePanic),
}
impl PartialEq for DevicePanic {
    fn eq(&self, o: &Self) -> bool {
        self.loc == o.loc && self.msg == o.msg
    }
}
impl Res {
    fn kind(&self) -> u8 {
        match self {
            Res::Ok => 1,
            Res::OkRx(_) => 2,
            Res::OkTimeout => 3,
            Res::Refused => 4,
            Res::Err(_) => 5,
            Res::Dropped => 6,
            Res::HungBusy => 7,
            Res::Panic(_) => 8,
        }
    }
    fn is_ok(&self) -> bool {
        matches!(self, Res::Ok | Res::OkRx(_) | Res::OkTimeout)
    }
    /// failed because of an outcome the chip reported (as opposed to a transport fault or an argument error)
    fn chip_reported_failure(&self) -> bool {
        match self {
            Res::OkTimeout => true,
            Res::Err(e) => e.contains("TransmitTimeout") || e.contains("ReceiveTimeout") || e.contains("PayloadSizeMismatch") || e.contains("OpError"),
            _ => false,
        }
    }
}

fn conv<T>(d: Driven<Result<T, RadioError>>, ok: impl FnOnce(T) -> Res) -> Res {
    match d {
        Driven::Ready(Ok(v)) => ok(v),
        Driven::Ready(Err(RadioError::InvalidRadioMode)) => Res::Refused,
        Driven::Ready(Err(e)) => Res::Err(format!("{e:?}")),
        Driven::Dropped(Pend::Irq) => Res::Dropped,
        Driven::Dropped(Pend::BusyStuck) => Res::HungBusy,
    }
}
fn conv_lw<T>(d: Driven<Result<T, LwError>>, ok: impl FnOnce(T) -> Res) -> Res {
    match d {
        Driven::Ready(Ok(v)) => ok(v),
        Driven::Ready(Err(LwError::Radio(RadioError::InvalidRadioMode))) => Res::Refused,
        Driven::Ready(Err(e)) => Res::Err(format!("{e:?}")),
        Driven::Dropped(Pend::Irq) => Res::Dropped,
        Driven::Dropped(Pend::BusyStuck) => Res::HungBusy,
    }
}

pub fn dr_params(dr: u8) -> (SpreadingFactor, Bandwidth, CodingRate) {
    match dr % 5 {
        0 => (SpreadingFactor::_7, Bandwidth::_125KHz, CodingRate::_4_5),
        1 => (SpreadingFactor::_9, Bandwidth::_125KHz, CodingRate::_4_5),
        2 => (SpreadingFactor::_12, Bandwidth::_125KHz, CodingRate::_4_5),
        3 => (SpreadingFactor::_7, Bandwidth::_250KHz, CodingRate::_4_6),
        _ => (SpreadingFactor::_8, Bandwidth::_500KHz, CodingRate::_4_5),
    }
}
pub fn channel(ch: u8) -> u32 {
    CHANNELS[ch as usize % CHANNELS.len()]
}
pub fn payload(len: u8, salt: u8) -> Vec<u8> {
    (0..len).map(|i| i.wrapping_mul(13).wrapping_add(salt) ^ 0x5A).collect()
}

/// What happens at the IRQ waits of one call.
struct Waits<'a> {
    irqs: &'a [Irq],
    next: usize,
    implicit_done_used: bool,
    cancelled: Option<bool>,
    /// kinds of the events that were applied (trace shape)
    applied: Vec<u8>,
    hung_busy: bool,
    drop_spurious: bool,
    /// an event applied at one of this call's waits ended the chip's operation (chip back in standby)
    terminal_seen: bool,
    /// ... and the call went on waiting for an interrupt until nothing was left that could raise one
    ignored_terminal: bool,
}

impl Waits<'_> {
    fn apply(w: &mut World, out: ChipOutcome, len: u8, cad: bool) -> bool {
        let p = payload(len, 0x33);
        match &mut w.chip {
            Chip::C126(c) => c.apply_outcome(&mut w.env, out, &p, cad),
            Chip::C127(c) => c.apply_outcome(&mut w.env, out, &p, cad),
        }
    }
    fn on_pend(&mut self, w: &mut World, p: Pend) -> bool {
        if p == Pend::BusyStuck {
            self.hung_busy = true;
            return false;
        }
        loop {
            let Some(irq) = self.irqs.get(self.next).copied() else {
                if !self.implicit_done_used {
                    self.implicit_done_used = true;
                    if Self::apply(w, ChipOutcome::Done, 12, false) {
                        self.applied.push(1);
                        w.env.tr(|| "chip: operation completes (implicit Done)".into());
                        return true;
                    }
                }
                if self.terminal_seen {
                    self.ignored_terminal = true;
                }
                w.env.bump("probe.wait-starved-dropped");
                w.env.tr(|| "harness: nothing left that could complete the wait -> future dropped".into());
                return false;
            };
            self.next += 1;
            let applied = match irq {
                Irq::Done { len, cad } => Self::apply(w, ChipOutcome::Done, len, cad),
                Irq::CrcError { len } => Self::apply(w, ChipOutcome::CrcError, len, false),
                Irq::Timeout => Self::apply(w, ChipOutcome::Timeout, 0, false),
                Irq::HeaderError => Self::apply(w, ChipOutcome::HeaderError, 0, false),
                Irq::Preamble => Self::apply(w, ChipOutcome::Preamble, 0, false),
                Irq::PreambleTimeout => Self::apply(w, ChipOutcome::PreambleTimeout, 0, false),
                Irq::Spurious => {
                    if self.drop_spurious {
                        false
                    } else {
                        w.spurious = true;
                        true
                    }
                }
                Irq::Cancel { chip_completes } => {
                    self.cancelled = Some(chip_completes);
                    w.env.clean = false;
                    w.env.bump("fault.cancel-at-irq-wait");
                    w.env.tr(|| format!("harness: future dropped at the IRQ wait (chip_completes={chip_completes})"));
                    return false;
                }
            };
            if applied {
                self.applied.push(irq.kind());
                w.env.tr(|| format!("chip: {irq:?}"));
                let standby = match &w.chip {
                    Chip::C126(c) => c.in_standby(),
                    Chip::C127(c) => c.in_standby(),
                };
                // only the timeout and the done interrupts (TxDone, RxDone of a single-shot reception, CadDone) are
                // judged: the data sheets leave no doubt that they end the operation with the chip in standby
                if standby && matches!(irq, Irq::Timeout | Irq::PreambleTimeout | Irq::Done { .. }) {
                    self.terminal_seen = true;
                }
                return true;
            }
            // not applicable in the chip's present mode: try the next scripted event
        }
    }
}

pub struct Exec<'a, RK: RadioKind> {
    pub world: WorldRef,
    pub radio: LorawanRadio<RK, SimDelay, 22, 0>,
    case: &'a C14Case,
    is_126x: bool,
    /// reference mode tracker (None: not determinable from the history, fall back to the driver's own belief)
    ref_mode: Option<M>,
    tx_ctx: Option<(u8, u8, u8)>,  // ch, dr, len of the last prepare_for_tx
    rx_ctx: Option<(u8, u8, bool, u8)>, // ch, dr, implicit, len of the last prepare_for_rx
    cad_ctx: Option<(u8, u8)>,
    lw_rx_set: bool,
    init_failed: bool,
    /// after the failed init() the caller went on with a successful prepare_* / adapter call (no init() in between)
    prepared_since_failed_init: bool,
    /// the sync word the application last asked for (None: unknown after a faulted or refused request)
    want_sync: Option<u16>,
    seen_tx_starts: usize,
    seen_rx_starts: usize,
    pub stats: RunStats,
    shape: Fnv,
    pub violation: Option<Violation>,
}

/// VERIF_DEBUG=1 turns some "statement is silent" probes into reportable events (harness development only).
fn debug_flag() -> bool {
    static F: std::sync::OnceLock<bool> = std::sync::OnceLock::new();
    *F.get_or_init(|| std::env::var("VERIF_DEBUG").is_ok())
}

fn has(case: &C14Case, tag: &str) -> bool {
    case.avoid.iter().any(|t| t == tag)
}

impl<'a, RK: RadioKind> Exec<'a, RK> {
    /// Build the device. A fault-free `LoRa::new` that fails or panics is the device's problem, not the harness's.
    pub fn new(rk: RK, world: WorldRef, case: &'a C14Case) -> Result<Self, Violation> {
        world.borrow_mut().begin_call("new", None);
        let fam = case.chip.family();
        let lora = match guarded(|| drive_now(&world, LoRa::new(rk, true, SimDelay(world.clone())))) {
            Ok(Driven::Ready(Ok(l))) => l,
            Ok(Driven::Ready(Err(e))) => return Err(Violation::new("C14.no-recovery", &format!("{fam}|new"), format!("fault-free LoRa::new failed: {e:?}"))),
            Ok(Driven::Dropped(p)) => return Err(Violation::new("C14.no-recovery", &format!("{fam}|new"), format!("fault-free LoRa::new never completed ({p:?})"))),
            Err(p) => return Err(Violation::new("C14.panic", &format!("{fam}|new|{}", short_loc(&p.loc)), format!("fault-free LoRa::new panicked at {} ({})", p.loc, p.msg))),
        };
        Ok(Exec {
            world,
            radio: lora.into(),
            case,
            is_126x: case.chip.is_126x(),
            ref_mode: Some(M::Standby),
            tx_ctx: None,
            rx_ctx: None,
            cad_ctx: None,
            lw_rx_set: false,
            init_failed: false,
            prepared_since_failed_init: false,
            want_sync: Some(0x3444),
            seen_tx_starts: 0,
            seen_rx_starts: 0,
            stats: RunStats::default(),
            shape: Fnv::new(),
            violation: None,
        })
    }

    fn lora(&mut self) -> &mut LoRa<RK, SimDelay> {
        self.radio.verif_lora()
    }
    fn hook_mode(&mut self) -> M {
        M::of(self.lora().verif_radio_mode())
    }
    fn chip_class(&self) -> u8 {
        let w = self.world.borrow();
        match &w.chip {
            Chip::C126(c) => c.mode_class(w.env.now_us),
            Chip::C127(c) => c.mode_class(),
        }
    }
    fn chip_standby(&self) -> bool {
        let w = self.world.borrow();
        match &w.chip {
            Chip::C126(c) => c.in_standby(),
            Chip::C127(c) => c.in_standby(),
        }
    }
    fn chip_valid(&self) -> u32 {
        match &self.world.borrow().chip {
            Chip::C126(c) => c.valid,
            Chip::C127(c) => c.valid,
        }
    }

    fn mdltn(&mut self, ch: u8, dr: u8) -> Result<ModulationParams, RadioError> {
        let (sf, bw, cr) = dr_params(dr);
        self.lora().create_modulation_params(sf, bw, cr, channel(ch))
    }
    fn rx_pkt(&mut self) -> Result<(ModulationParams, PacketParams), RadioError> {
        let (ch, dr, implicit, len) = self.rx_ctx.unwrap_or((0, 0, false, 255));
        let m = self.mdltn(ch, dr)?;
        let p = self.lora().create_rx_packet_params(8, implicit, len, true, true, &m)?;
        Ok((m, p))
    }

    /// Issue one API call. Returns the classified result and what happened at its waits.
    fn call(&mut self, step: &Step, waits: &mut Waits<'_>) -> Res {
        let world = self.world.clone();
        let r = guarded(|| -> Res {
            let on = |w: &mut World, p: Pend| waits.on_pend(w, p);
            match step.op {
                Op::Init => conv(drive(&world, self.lora().init(), on), |_| Res::Ok),
                Op::Sleep { warm } => conv(drive(&world, self.lora().sleep(warm), on), |_| Res::Ok),
                Op::PrepTx { ch, dr, power, len } => {
                    let m = match self.mdltn(ch, dr) {
                        Ok(m) => m,
                        Err(e) => return Res::Err(format!("{e:?}")),
                    };
                    let mut p = match self.lora().create_tx_packet_params(8, false, true, false, &m) {
                        Ok(p) => p,
                        Err(e) => return Res::Err(format!("{e:?}")),
                    };
                    self.tx_ctx = Some((ch, dr, len));
                    let bytes = payload(len, ch);
                    conv(drive(&world, self.lora().prepare_for_tx(&m, &mut p, power as i32, &bytes), on), |_| Res::Ok)
                }
                Op::Tx => conv(drive(&world, self.lora().tx(), on), |_| Res::Ok),
                Op::PrepRx { mode, ch, dr, implicit, len } => {
                    let m = match self.mdltn(ch, dr) {
                        Ok(m) => m,
                        Err(e) => return Res::Err(format!("{e:?}")),
                    };
                    let p = match self.lora().create_rx_packet_params(8, implicit, len, true, true, &m) {
                        Ok(p) => p,
                        Err(e) => return Res::Err(format!("{e:?}")),
                    };
                    self.rx_ctx = Some((ch, dr, implicit, len));
                    let mode = match mode {
                        RxM::Single(n) => RxMode::Single(n),
                        RxM::Continuous => RxMode::Continuous,
                        RxM::Duty { rx, sleep } => RxMode::DutyCycle(DutyCycleParams { rx_time: rx, sleep_time: sleep }),
                    };
                    conv(drive(&world, self.lora().prepare_for_rx(mode, &m, &p), on), |_| Res::Ok)
                }
                Op::StartRx => conv(drive(&world, self.lora().start_rx(), on), |_| Res::Ok),
                Op::CompleteRx { buf } | Op::Rx { buf } => {
                    let (_, p) = match self.rx_pkt() {
                        Ok(x) => x,
                        Err(e) => return Res::Err(format!("{e:?}")),
                    };
                    let mut b = vec![0u8; buf as usize];
                    if matches!(step.op, Op::Rx { .. }) {
                        conv(drive(&world, self.lora().rx(&p, &mut b), on), |(n, _)| Res::OkRx(n as usize))
                    } else {
                        conv(drive(&world, self.lora().complete_rx(&p, &mut b), on), |(n, _)| Res::OkRx(n as usize))
                    }
                }
                Op::SwitchChannel { ch } => conv(drive(&world, self.lora().rx_switch_channel(channel(ch)), on), |_| Res::Ok),
                Op::Listen { ch } => {
                    let (_, bw, _) = dr_params(0);
                    conv(drive(&world, self.lora().listen(channel(ch), bw), on), |_| Res::Ok)
                }
                Op::PrepCad { ch, dr } => {
                    let m = match self.mdltn(ch, dr) {
                        Ok(m) => m,
                        Err(e) => return Res::Err(format!("{e:?}")),
                    };
                    self.cad_ctx = Some((ch, dr));
                    conv(drive(&world, self.lora().prepare_for_cad(&m), on), |_| Res::Ok)
                }
                Op::Cad => {
                    let (ch, dr) = self.cad_ctx.unwrap_or((0, 0));
                    let m = match self.mdltn(ch, dr) {
                        Ok(m) => m,
                        Err(e) => return Res::Err(format!("{e:?}")),
                    };
                    conv(drive(&world, self.lora().cad(&m), on), |_| Res::Ok)
                }
                Op::SetSyncWord { word } => conv(drive(&world, self.lora().set_lora_sync_word(word), on), |_| Res::Ok),
                Op::LwTx { ch, dr, power, len } => {
                    let (sf, bw, cr) = dr_params(dr);
                    let cfg = TxConfig { pw: power, rf: RfConfig { frequency: channel(ch), bb: lora_modulation::BaseBandModulationParams::new(sf, bw, cr), max_payload_len: 255 } };
                    self.tx_ctx = Some((ch, dr, len));
                    let bytes = payload(len, ch);
                    conv_lw(drive(&world, self.radio.tx(cfg, &bytes), on), |_| Res::Ok)
                }
                Op::LwSetupRx { ch, dr, continuous, ms } => {
                    let (sf, bw, cr) = dr_params(dr);
                    let cfg = RxConfig {
                        rf: RfConfig { frequency: channel(ch), bb: lora_modulation::BaseBandModulationParams::new(sf, bw, cr), max_payload_len: 255 },
                        mode: if continuous { LwRxMode::Continuous } else { LwRxMode::Single { ms: ms as u32 } },
                    };
                    conv_lw(drive(&world, self.radio.setup_rx(cfg), on), |_| Res::Ok)
                }
                Op::LwRxSingle { buf } => {
                    let mut b = vec![0u8; buf as usize];
                    conv_lw(drive(&world, self.radio.rx_single(&mut b), on), |s| match s {
                        RxStatus::Rx(n, _) => Res::OkRx(n),
                        RxStatus::RxTimeout => Res::OkTimeout,
                    })
                }
                Op::LwRxContinuous { buf } => {
                    let mut b = vec![0u8; buf as usize];
                    conv_lw(drive(&world, self.radio.rx_continuous(&mut b), on), |(n, _)| Res::OkRx(n))
                }
                Op::LwLowPower => conv_lw(drive(&world, self.radio.low_power(), on), |_| Res::Ok),
            }
        });
        match r {
            Ok(res) => res,
            Err(p) => Res::Panic(p),
        }
    }

    fn violate(&mut self, invariant: &'static str, detail: String, message: String) {
        if self.violation.is_none() {
            self.world.borrow_mut().env.tr(|| format!("VIOLATION {invariant} {detail}: {message}"));
            self.violation = Some(Violation::new(invariant, &detail, message));
        }
    }

    fn take_alert(&mut self) {
        let a = self.world.borrow_mut().env.alerts.first().cloned();
        if let Some(a) = a {
            // context: did an init() fail after pulsing NRESET, with no successful init() since?
            // "after-failed-init": the caller carried on with a new prepare_* although init() had failed;
            // "after-failed-init-unprepared": the driver let an operation start with nothing prepared since
            let ctx = if self.init_failed && self.prepared_since_failed_init {
                "after-failed-init"
            } else if self.init_failed {
                "after-failed-init-unprepared"
            } else {
                "normal"
            };
            let msg = if self.init_failed { format!("{} [an earlier init() failed after resetting the chip]", a.message) } else { a.message };
            self.violate(a.invariant, format!("{ctx}|{}", a.detail), msg);
        }
    }

    fn state_hash(&mut self) {
        let hm = self.hook_mode();
        let cs = self.lora().verif_cold_start();
        let mut h = Fnv::new();
        h.u8(self.case.chip as u8);
        h.u8(hm as u8);
        h.u8(self.chip_class());
        h.u64(self.chip_valid() as u64);
        h.u8(cs as u8);
        self.stats.states.push(h.finish());
    }

    /// Execute step `i`. Returns false when the run has to stop (violation or device panic).
    pub fn step(&mut self, idx: usize, step: &Step) -> bool {
        let fam = self.case.chip.family();
        let case = self.case;
        let mut step = step.clone();
        // ---- stay away from registered known findings (sanitising at execution keeps shrunk cases away too) ----
        let hm0 = self.hook_mode();
        if has(case, TAG_127X_DUTY) && !self.is_126x {
            if let Op::PrepRx { mode: ref mut m @ RxM::Duty { .. }, .. } = step.op {
                *m = RxM::Continuous;
            }
        }
        if has(case, TAG_INIT_FAULT) && matches!(step.op, Op::Init) && step.fault.map(|f| f.at <= 1).unwrap_or(false) {
            step.fault = None;
        }
        if has(case, TAG_INIT_FAULT_127X) && !self.is_126x && matches!(step.op, Op::Init) && step.fault.map(|f| f.at <= 1).unwrap_or(false) {
            // the known finding needs the caller to carry on with a prepare_* after this failed init(): only then is
            // the fault taken out; a caller that goes straight to tx / start_rx / cad must be refused, and that stays explored
            let carries_on = case.steps[(idx + 1).min(case.steps.len())..]
                .iter()
                .take_while(|s| !matches!(s.op, Op::Init))
                .any(|s| matches!(s.op, Op::PrepTx { .. } | Op::PrepRx { .. } | Op::PrepCad { .. } | Op::Listen { .. } | Op::LwTx { .. } | Op::LwSetupRx { .. } | Op::SetSyncWord { .. } | Op::Sleep { .. } | Op::LwLowPower));
            if carries_on {
                step.fault = None;
            } else {
                self.stats.bump("probe.sx127x-init-fault-kept-no-prepare-follows");
            }
        }
        let mut drop_spurious = false;
        if has(case, TAG_CAD_SPURIOUS) && matches!(step.op, Op::Cad) {
            drop_spurious = true;
        }
        self.world.borrow_mut().env.now_us += step.gap_us as u64;
        let duty_all = has(case, TAG_DUTY_NO_WAKE) && matches!(step.op, Op::StartRx | Op::CompleteRx { .. } | Op::Rx { .. } | Op::SwitchChannel { .. } | Op::LwRxSingle { .. } | Op::LwRxContinuous { .. });
        let duty_complete_only = has(case, TAG_DUTY_COMPLETE_RX) && matches!(step.op, Op::CompleteRx { .. });
        if (duty_all || duty_complete_only) && self.is_126x && hm0 == M::RxDuty {
            drop_spurious = true;
            let mut w = self.world.borrow_mut();
            let w = &mut *w;
            if let Chip::C126(c) = &mut w.chip {
                // align the call with the next RX phase of the duty cycle
                let mut guard = 0;
                while (c.asleep(w.env.now_us).is_some() || c.asleep(w.env.now_us + 50).is_some()) && matches!(c.mode, crate::chip126x::Mode::Rx(_)) && guard < 100_000 {
                    w.env.now_us += 100;
                    guard += 1;
                }
            }
        }
        if has(case, TAG_RX_READ_ERROR) {
            // a buffer that holds any packet: get_rx_payload cannot fail with PayloadSizeMismatch (C18 covers small buffers)
            if let Op::CompleteRx { buf } | Op::Rx { buf } | Op::LwRxSingle { buf } | Op::LwRxContinuous { buf } = &mut step.op {
                *buf = (*buf).max(255);
            }
        }

        // ---- the call ----
        let faults_before = self.world.borrow().env.counters.iter().filter(|(k, _)| k.starts_with("fault.")).map(|(_, v)| *v).sum::<u64>();
        let before_ref = self.ref_mode;
        let before = before_ref.unwrap_or(hm0);
        let chip_before = self.chip_class();
        {
            let mut w = self.world.borrow_mut();
            w.begin_call(step.op.name(), step.fault);
            w.env.rssi_only = matches!(step.op, Op::Listen { .. });
            let t = format!("step {idx}: {:?} gap={}us fault={:?} irqs={:?}  [driver mode {:?}, chip mode class {}]", step.op, step.gap_us, step.fault, step.irqs, hm0, chip_before);
            w.env.tr(|| t);
        }
        let mut waits = Waits { irqs: &step.irqs, next: 0, implicit_done_used: false, cancelled: None, applied: vec![], hung_busy: false, drop_spurious, terminal_seen: false, ignored_terminal: false };
        let clean_before = self.world.borrow().env.clean;
        let res = self.call(&step, &mut waits);
        let log = self.world.borrow().call;
        if let Some(chip_completes) = waits.cancelled {
            if chip_completes {
                let mut w = self.world.borrow_mut();
                Waits::apply(&mut w, ChipOutcome::Done, 12, false);
            }
        }
        let dropped = matches!(res, Res::Dropped | Res::HungBusy);
        if dropped {
            self.world.borrow_mut().env.clean = false;
        }
        {
            let mut w = self.world.borrow_mut();
            w.fault = None;
            let t = format!("  -> {:?} (spi {}, busy waits {}, irq waits {}, other {})", res, log.spi, log.busy, log.irq, log.other);
            w.env.tr(|| t);
        }
        // A call that fails without any bus, line or delay activity and without an injected fault was refused before the
        // chip was commanded - whatever error variant says so (the adapter may refuse with an error of its own).
        let res = if matches!(res, Res::Err(_)) && !log.touched() && !log.fault_fired {
            self.stats.bump("probe.refused-with-another-error");
            Res::Refused
        } else {
            res
        };
        self.stats.steps += log.spi as u64;
        self.shape.u8(step.op.name().len() as u8);
        self.shape.str(step.op.name());
        self.shape.u8(res.kind());
        self.shape.bytes(&waits.applied);
        self.shape.u8(log.fault_fired as u8);
        self.shape.u8(waits.cancelled.is_some() as u8);

        // ---- device panic ----
        if let Res::Panic(p) = &res {
            let (inv, what) = if p.livelock { ("C14.livelock", "did not return within the bus-operation budget") } else { ("C14.panic", "panicked") };
            let loc = short_loc(&p.loc);
            self.violate(inv, format!("{fam}|{}|{loc}", step.op.name()), format!("{}() {what} at {} ({}); driver mode before the call {:?}, events at its waits {:?}", step.op.name(), p.loc, p.msg, hm0, step.irqs));
            return false;
        }

        // ---- the chip reported the end of the operation and the call kept waiting for another interrupt ----
        if waits.ignored_terminal && waits.cancelled.is_none() && !log.fault_fired && clean_before {
            self.stats.bump("probe.ignored-terminal-irq");
            let hm = self.hook_mode();
            self.violate(
                "C14.no-recovery",
                format!("{fam}|{}|kept-waiting-after-chip-finished", step.op.name()),
                format!("{}(): the chip reported the end of the operation at a wait of this call (events {:?}) and fell back to standby, but the call went on waiting for an interrupt the chip can no longer raise; driver mode {:?}", step.op.name(), step.irqs, hm),
            );
            return false;
        }

        if matches!(step.op, Op::Init) {
            self.init_failed = res != Res::Ok && log.other > 0;
            self.prepared_since_failed_init = false;
        } else if self.init_failed && res.is_ok() && matches!(step.op, Op::PrepTx { .. } | Op::PrepRx { .. } | Op::PrepCad { .. } | Op::Listen { .. } | Op::LwTx { .. } | Op::LwSetupRx { .. }) {
            self.prepared_since_failed_init = true;
        }
        // ---- monitors (b) and (c): raised by the chip model ----
        self.take_alert();
        // (c) continued: the sync word in the chip when a transmission / reception starts is the one asked for
        if let Op::SetSyncWord { word } = step.op {
            self.want_sync = if res == Res::Ok { Some(word) } else { None };
        }
        {
            let starts: Vec<u16> = {
                let w = self.world.borrow();
                let (tx, rx): (Vec<u16>, Vec<u16>) = match &w.chip {
                    Chip::C126(c) => (c.tx_rf_log[self.seen_tx_starts.min(c.tx_rf_log.len())..].iter().map(|x| x.0.sync).collect(), c.rx_rf_log[self.seen_rx_starts.min(c.rx_rf_log.len())..].iter().map(|x| x.sync).collect()),
                    Chip::C127(c) => (c.tx_rf_log[self.seen_tx_starts.min(c.tx_rf_log.len())..].iter().map(|x| x.0.sync).collect(), c.rx_rf_log[self.seen_rx_starts.min(c.rx_rf_log.len())..].iter().map(|x| x.sync).collect()),
                };
                self.seen_tx_starts += tx.len();
                self.seen_rx_starts += rx.len();
                tx.into_iter().chain(rx).collect()
            };
            if let (Some(want), false) = (self.want_sync, matches!(step.op, Op::Listen { .. })) {
                let want_chip = if self.is_126x { want } else { (((want >> 8) & 0xF0) | ((want & 0xFF) >> 4)) & 0xFF };
                if let Some(got) = starts.iter().find(|g| **g != want_chip) {
                    if self.world.borrow().env.clean {
                        self.violate(
                            "C14.started-unconfigured",
                            format!("{}|{fam}|{}|sync-word-value", if self.init_failed { "after-failed-init-unprepared" } else { "normal" }, step.op.name()),
                            format!("{}() started with sync word {got:#06x} in the chip; the application last set {want:#06x}", step.op.name()),
                        );
                    }
                }
                if !starts.is_empty() {
                    self.stats.bump("probe.sync-word-value-checked");
                }
            }
        }

        // ---- monitor (a): wrong mode => refused, and a refusal never touches the chip ----
        let required: Option<fn(M) -> bool> = match step.op {
            Op::Tx => Some(|m| m == M::Tx),
            Op::StartRx | Op::CompleteRx { .. } | Op::Rx { .. } | Op::SwitchChannel { .. } => Some(M::is_rx),
            Op::Cad => Some(|m| m == M::Cad),
            Op::LwRxSingle { .. } | Op::LwRxContinuous { .. } if self.lw_rx_set => Some(M::is_rx),
            _ => None,
        };
        if let Some(req) = required {
            if !req(before) {
                self.stats.bump("probe.wrong-mode-call");
                if res != Res::Refused {
                    self.violate(
                        "C14.wrong-mode-not-refused",
                        format!("{fam}|{}|{:?}", step.op.name(), before),
                        format!("{}() was invoked while the radio was prepared for {:?} (driver's own mode {:?}) and returned {:?} instead of InvalidRadioMode", step.op.name(), before, hm0, res),
                    );
                }
            } else if res == Res::Refused {
                self.stats.bump("probe.right-mode-refused");
                if debug_flag() {
                    self.violate("C14.debug-right-mode-refused", format!("{fam}|{}", step.op.name()), format!("ref {:?} hook {:?}", before_ref, hm0));
                }
            }
        }
        if res == Res::Refused {
            self.stats.bump("probe.refused");
            if log.touched() {
                self.violate(
                    "C14.refusal-touched-chip",
                    format!("{fam}|{}", step.op.name()),
                    format!("{}() was refused with InvalidRadioMode but first issued {} SPI transactions / {} line operations", step.op.name(), log.spi, log.busy + log.irq + log.other),
                );
            }
        }

        // ---- monitor (d): chip-reported failure => chip in standby and the driver knows it ----
        let hm1 = self.hook_mode();
        let rx_op = matches!(step.op, Op::CompleteRx { .. } | Op::Rx { .. } | Op::LwRxSingle { .. } | Op::LwRxContinuous { .. });
        if res.chip_reported_failure() && !log.fault_fired && !(rx_op && hm0 == M::RxContinuous) {
            self.stats.bump("probe.chip-reported-failure");
            let chip_sb = self.chip_standby();
            if !chip_sb || hm1 != M::Standby {
                let e = match &res {
                    Res::Err(e) => e.split('(').next().unwrap_or("").to_string(),
                    _ => "RxTimeout".to_string(),
                };
                self.violate(
                    "C14.not-standby-after-failure",
                    format!("{e}|{fam}|{}|chip-standby={chip_sb}|driver={:?}", step.op.name(), hm1),
                    format!("{}() failed with {:?}; afterwards the chip is{} in standby and the driver believes {:?}", step.op.name(), res, if chip_sb { "" } else { " not" }, hm1),
                );
            }
        }
        // a single-shot or duty-cycle reception whose chip-side operation HAS ENDED in this call (RxDone / timeout
        // raised, chip back in standby) and which then fails on a transport fault while the driver reads the
        // outcome: the operation has failed, the chip is in standby, and the driver must know that the reception is
        // over (if it went on believing that a receiver is armed, a later start_rx / rx_switch_channel would be
        // accepted and command the chip). Faults that hit before the chip's operation ended are not judged
        // (section 15: the driver keeps its armed mode when the start of an operation fails on the bus).
        // Not judged either: a fault that hits the recovery action itself (the wake-up or the standby command of
        // the error path - the driver cannot claim a standby it could not command).
        let recovery_cmd = match log.fault_cmd {
            None => true, // not an SPI fault
            Some(op) => {
                if self.is_126x {
                    op == 0x80 || op == 0xC0
                } else {
                    op == 0x81
                }
            }
        };
        let armed_op = (rx_op && matches!(hm0, M::RxSingle | M::RxDuty)) || (matches!(step.op, Op::Cad) && hm0 == M::Cad) || (matches!(step.op, Op::Tx | Op::LwTx { .. }) && hm0 == M::Tx);
        if armed_op && waits.terminal_seen && log.fault_fired && !recovery_cmd && !dropped && matches!(res, Res::Err(_)) {
            self.stats.bump("probe.reception-ended-then-transport-fault");
            if hm1 == hm0 {
                self.violate(
                    "C14.not-standby-after-failure",
                    format!("transport-after-chip-ended|{fam}|{}|driver={:?}", step.op.name(), hm1),
                    format!("{}() failed with {:?} on an injected transport fault after the chip had ended the reception; afterwards the driver still believes {:?}", step.op.name(), res, hm1),
                );
            }
        }
        // the same when the only disturbance of the whole run is an SPI fault inside this very call: a lost bus
        // transaction must make the call fail, not leave it waiting for the BUSY line of a chip that never woke up
        let only_this_spi_fault = faults_before == 0 && log.fault_fired && matches!(step.fault, Some(f) if f.kind == FaultKind::Spi);
        if self.is_126x && res == Res::HungBusy && only_this_spi_fault {
            self.violate("C14.commanded-while-asleep", format!("{fam}|{}|waits-for-busy-after-lost-wake-up", step.op.name()), format!("{}(): an SPI transaction of this call failed, yet the call went on and now waits for BUSY to go low while the chip is still asleep (driver mode {:?})", step.op.name(), hm0));
        }
        if self.is_126x && res == Res::HungBusy && self.world.borrow().env.clean_before_drop() {
            self.violate("C14.commanded-while-asleep", format!("{fam}|{}|waits-for-busy-of-sleeping-chip", step.op.name()), format!("{}() waits for BUSY to go low while the chip sleeps: the driver (mode {:?}) does not know the chip is asleep", step.op.name(), hm0));
        }

        // ---- probes ----
        if log.fault_fired {
            self.stats.bump("probe.call-hit-by-transport-fault");
        }
        if matches!(step.op, Op::Sleep { warm: false } | Op::LwLowPower) && res.is_ok() {
            self.stats.bump("probe.cold-sleep-entered");
        }
        if res.is_ok() && matches!(step.op, Op::Tx | Op::LwTx { .. }) {
            self.stats.bump("probe.tx-completed");
            self.stats.nontrivial = true;
        }
        if matches!(res, Res::OkRx(_)) {
            self.stats.bump("probe.rx-completed");
            self.stats.nontrivial = true;
        }
        if res.is_ok() && matches!(step.op, Op::Cad) {
            self.stats.bump("probe.cad-completed");
            self.stats.nontrivial = true;
        }
        if res == Res::Refused || res.chip_reported_failure() {
            self.stats.nontrivial = true;
        }

        // ---- reference mode tracker ----
        let transport = log.fault_fired || dropped;
        self.ref_mode = if transport {
            None
        } else {
            match (&step.op, &res) {
                (_, Res::Refused) => before_ref,
                (Op::Init, Res::Ok) => Some(M::Standby),
                (Op::Sleep { .. }, Res::Ok) | (Op::LwLowPower, Res::Ok) => Some(M::Sleep),
                (Op::PrepTx { .. }, Res::Ok) => Some(M::Tx),
                (Op::Tx, Res::Ok) | (Op::LwTx { .. }, Res::Ok) | (Op::Cad, Res::Ok) | (Op::SetSyncWord { .. }, Res::Ok) => Some(M::Standby),
                (Op::PrepRx { mode, .. }, Res::Ok) => Some(M::of_rxm(*mode)),
                (Op::LwSetupRx { continuous, .. }, Res::Ok) => Some(if *continuous { M::RxContinuous } else { M::RxSingle }),
                (Op::StartRx | Op::SwitchChannel { .. }, Res::Ok) => before_ref,
                (Op::CompleteRx { .. } | Op::Rx { .. } | Op::LwRxSingle { .. } | Op::LwRxContinuous { .. }, Res::OkRx(_)) => before_ref,
                (Op::Listen { .. }, Res::Ok) => Some(M::Listen),
                (Op::PrepCad { .. }, Res::Ok) => Some(M::Cad),
                (_, r) if r.chip_reported_failure() => {
                    if rx_op && before == M::RxContinuous {
                        before_ref
                    } else {
                        Some(M::Standby)
                    }
                }
                _ => None,
            }
        };
        if debug_flag() {
            if let Some(r) = self.ref_mode {
                if r != hm1 {
                    self.violate("C14.debug-ref-vs-hook", format!("{fam}|{}|{:?}|{:?}", step.op.name(), r, hm1), format!("after {:?} -> {:?}: reference mode {:?}, driver mode {:?}", step.op, res, r, hm1));
                }
            }
        }
        if matches!(step.op, Op::LwSetupRx { .. }) && res == Res::Ok {
            self.lw_rx_set = true;
        }
        self.state_hash();
        self.violation.is_none()
    }

    /// Bounded recovery: with faults stopped, prepare_for_tx + tx must put the right bytes on the right
    /// frequency — at the latest after init() (a retry and a re-initialisation are tolerated and counted).
    pub fn recovery(&mut self) {
        let fam = self.case.chip.family();
        let probe = [Step::of(Op::PrepTx { ch: 1, dr: 0, power: 10, len: 9 }), Step::of(Op::Tx)];
        let mut last = String::new();
        // stay away from the registered known finding: after a failed init() of an SX127x the recovery starts with init()
        let first = if self.init_failed && !self.is_126x && has(self.case, TAG_INIT_FAULT_127X) { 2 } else { 0 };
        for attempt in first..3 {
            if attempt == 2 {
                self.world.borrow_mut().env.tr(|| "recovery: re-initialising".into());
                let mut w0 = Waits { irqs: &[], next: 0, implicit_done_used: false, cancelled: None, applied: vec![], hung_busy: false, drop_spurious: false, terminal_seen: false, ignored_terminal: false };
                self.world.borrow_mut().begin_call("init", None);
                let r = self.call(&Step::of(Op::Init), &mut w0);
                if r != Res::Ok {
                    last = format!("init: {r:?}");
                    break;
                }
                self.init_failed = false;
                self.prepared_since_failed_init = false;
            }
            let n_before = self.tx_log_len();
            let mut ok = true;
            for s in &probe {
                let mut w0 = Waits { irqs: &[], next: 0, implicit_done_used: false, cancelled: None, applied: vec![], hung_busy: false, drop_spurious: false, terminal_seen: false, ignored_terminal: false };
                {
                    let mut w = self.world.borrow_mut();
                    w.begin_call(s.op.name(), None);
                    w.env.rssi_only = false;
                    let t = format!("recovery attempt {attempt}: {:?}", s.op);
                    w.env.tr(|| t);
                }
                let r = self.call(s, &mut w0);
                let t = format!("  -> {r:?}");
                self.world.borrow_mut().env.tr(|| t);
                if let Res::Panic(p) = &r {
                    self.violate("C14.panic", format!("{fam}|recovery-{}|{}", s.op.name(), short_loc(&p.loc)), format!("{}() panicked during the recovery probe at {} ({})", s.op.name(), p.loc, p.msg));
                    return;
                }
                if r != Res::Ok {
                    ok = false;
                    last = format!("{}: {r:?}", s.op.name());
                    break;
                }
                if self.init_failed && matches!(s.op, Op::PrepTx { .. }) {
                    self.prepared_since_failed_init = true;
                }
            }
            self.take_alert();
            if self.violation.is_some() {
                return;
            }
            if ok {
                let want = payload(9, 1);
                let (got, freq_ok) = self.last_tx(n_before, channel(1));
                if got.as_deref() == Some(&want[..]) && freq_ok {
                    match attempt {
                        0 => self.stats.bump("probe.recovered-at-once"),
                        1 => self.stats.bump("probe.recovered-after-retry"),
                        _ => self.stats.bump("probe.recovered-after-init"),
                    }
                    return;
                }
                last = format!("transmitted {:?} (frequency ok: {freq_ok}) instead of {}", got.map(|g| hex(&g)), hex(&want));
            }
        }
        self.violate("C14.no-recovery", fam.to_string(), format!("after the faults stopped, prepare_for_tx + tx did not transmit the requested frame even after init(): {last}"));
    }

    fn tx_log_len(&self) -> usize {
        match &self.world.borrow().chip {
            Chip::C126(c) => c.tx_log.len(),
            Chip::C127(c) => c.tx_log.len(),
        }
    }
    fn last_tx(&self, n_before: usize, freq: u32) -> (Option<Vec<u8>>, bool) {
        match &self.world.borrow().chip {
            Chip::C126(c) => match c.tx_log.last() {
                Some(r) if c.tx_log.len() > n_before => {
                    // RF frequency register = f * 2^25 / 32 MHz
                    let want = ((freq as u64) << 25) / 32_000_000;
                    (Some(r.payload.clone()), (r.freq_raw as i64 - want as i64).abs() <= 1)
                }
                _ => (None, false),
            },
            Chip::C127(c) => match c.tx_log.last() {
                Some(r) if c.tx_log.len() > n_before => {
                    // Frf = f * 2^19 / 32 MHz
                    let want = ((freq as u64) << 19) / 32_000_000;
                    (Some(r.payload.clone()), (r.frf as i64 - want as i64).abs() <= 1)
                }
                _ => (None, false),
            },
        }
    }

    pub fn finish(mut self) -> (Option<Violation>, RunStats, Vec<String>) {
        let mut w = self.world.borrow_mut();
        for (k, v) in std::mem::take(&mut w.env.counters) {
            self.stats.add(k, v);
        }
        if let Chip::C126(c) = &w.chip {
            if c.cold_starts > 1 {
                self.stats.add("probe.chip-cold-starts", (c.cold_starts - 1) as u64);
            }
        }
        self.stats.sim_ms = w.env.now_us / 1000;
        self.shape.u8(self.case.chip as u8);
        self.stats.shape = self.shape.finish();
        let trace = w.env.trace.take().unwrap_or_default();
        (self.violation.clone(), self.stats.clone(), trace)
    }
}

impl Env {
    /// was the run undisturbed up to (not including) the drop that just happened? Conservative: a BUSY hang is
    /// only judged when no transport fault or cancellation happened earlier in the run.
    pub fn clean_before_drop(&self) -> bool {
        !self.counters.keys().any(|k| k.starts_with("fault."))
    }
}
