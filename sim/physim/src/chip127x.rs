//! `ChipModel127x` — behavioural stub of an SX1276/7/8/9 or SX1272/3 in LoRa mode, written from the
//! datasheets, sharing no code with /repo.
//!
//! Modelled: register file with side effects (RegOpMode mode machine incl. the rule that LongRangeMode
//! only changes in sleep, RegIrqFlags write-1-to-clear gated by RegIrqFlagsMask, FIFO port with
//! auto-incrementing pointer that wraps at 256 and is not accessible in sleep), DIO0/DIO1 mapping,
//! what a reset loses ("configuration-validity bits"; sleep retains registers on this family), and
//! a lying mode for C18. Not modelled: FSK page, RF, frequency hopping.

use crate::world::{ChipRf, Env};

pub const REG_FIFO: u8 = 0x00;
pub const REG_OP_MODE: u8 = 0x01;
const REG_FRF_MSB: u8 = 0x06;
const REG_FRF_MID: u8 = 0x07;
const REG_FRF_LSB: u8 = 0x08;
const REG_PA_CONFIG: u8 = 0x09;
const REG_PA_RAMP: u8 = 0x0A;
const REG_FIFO_ADDR_PTR: u8 = 0x0D;
const REG_FIFO_TX_BASE: u8 = 0x0E;
const REG_FIFO_RX_BASE: u8 = 0x0F;
const REG_FIFO_RX_CURRENT: u8 = 0x10;
const REG_IRQ_FLAGS_MASK: u8 = 0x11;
const REG_IRQ_FLAGS: u8 = 0x12;
const REG_RX_NB_BYTES: u8 = 0x13;
const REG_PKT_SNR: u8 = 0x19;
const REG_PKT_RSSI: u8 = 0x1A;
const REG_RSSI: u8 = 0x1B;
const REG_MODEM_CONFIG1: u8 = 0x1D;
const REG_MODEM_CONFIG2: u8 = 0x1E;
const REG_SYMB_TIMEOUT_LSB: u8 = 0x1F;
const REG_PREAMBLE_MSB: u8 = 0x20;
const REG_PREAMBLE_LSB: u8 = 0x21;
const REG_PAYLOAD_LENGTH: u8 = 0x22;
const REG_MODEM_CONFIG3: u8 = 0x26;
const REG_SYNC_WORD: u8 = 0x39;
const REG_DIO_MAPPING1: u8 = 0x40;
const REG_VERSION: u8 = 0x42;
const REG_TCXO_1276: u8 = 0x4B;
const REG_TCXO_1272: u8 = 0x58;

// RegIrqFlags bits
pub const IRQ_CAD_DETECTED: u8 = 0x01;
pub const IRQ_CAD_DONE: u8 = 0x04;
pub const IRQ_TX_DONE: u8 = 0x08;
pub const IRQ_VALID_HEADER: u8 = 0x10;
pub const IRQ_CRC_ERROR: u8 = 0x20;
pub const IRQ_RX_DONE: u8 = 0x40;
pub const IRQ_RX_TIMEOUT: u8 = 0x80;

// configuration-validity bits (DESIGN appendix B)
pub const V_LORA: u32 = 1 << 0;
pub const V_SYNC: u32 = 1 << 1;
pub const V_TX_BASE: u32 = 1 << 2;
pub const V_RX_BASE: u32 = 1 << 3;
pub const V_FRF_MSB: u32 = 1 << 4;
pub const V_FRF_MID: u32 = 1 << 5;
pub const V_FRF_LSB: u32 = 1 << 6;
pub const V_MC1: u32 = 1 << 7;
pub const V_MC2: u32 = 1 << 8;
pub const V_MC3: u32 = 1 << 9;
pub const V_PREAMBLE_MSB: u32 = 1 << 10;
pub const V_PREAMBLE_LSB: u32 = 1 << 11;
pub const V_PAYLEN: u32 = 1 << 12;
pub const V_PA_CONFIG: u32 = 1 << 13;
pub const V_PA_RAMP: u32 = 1 << 14;
pub const V_DIOMAP: u32 = 1 << 15;
pub const V_FIFO: u32 = 1 << 16;
pub const V_SYMB_TIMEOUT: u32 = 1 << 17;
pub const V_IRQ_MASK: u32 = 1 << 18;
pub const V_TCXO: u32 = 1 << 19;
const V_FRF: u32 = V_FRF_MSB | V_FRF_MID | V_FRF_LSB;
const V_PREAMBLE: u32 = V_PREAMBLE_MSB | V_PREAMBLE_LSB;

const V_NAMES: [(u32, &str); 20] = [
    (V_LORA, "lora-mode"),
    (V_SYNC, "sync-word"),
    (V_TX_BASE, "fifo-tx-base"),
    (V_RX_BASE, "fifo-rx-base"),
    (V_FRF_MSB, "frf-msb"),
    (V_FRF_MID, "frf-mid"),
    (V_FRF_LSB, "frf-lsb"),
    (V_MC1, "modem-config1"),
    (V_MC2, "modem-config2"),
    (V_MC3, "modem-config3"),
    (V_PREAMBLE_MSB, "preamble-msb"),
    (V_PREAMBLE_LSB, "preamble-lsb"),
    (V_PAYLEN, "payload-length"),
    (V_PA_CONFIG, "pa-config"),
    (V_PA_RAMP, "pa-ramp"),
    (V_DIOMAP, "dio-mapping"),
    (V_FIFO, "fifo-payload"),
    (V_SYMB_TIMEOUT, "symbol-timeout"),
    (V_IRQ_MASK, "irq-mask"),
    (V_TCXO, "tcxo"),
];

pub fn valid_names(bits: u32) -> String {
    V_NAMES.iter().filter(|(b, _)| bits & b != 0).map(|(_, n)| *n).collect::<Vec<_>>().join("+")
}

#[derive(Clone, Copy, Debug, PartialEq, Eq)]
pub enum Mode {
    Sleep,
    Standby,
    FsTx,
    Tx,
    FsRx,
    RxContinuous,
    RxSingle,
    Cad,
}

#[derive(Clone, Copy, Debug)]
pub struct Lie127 {
    pub len: u8,
    pub offset: u8,
    pub rssi: u8,
    pub snr: u8,
}

#[derive(Clone, Debug, PartialEq, Eq)]
pub struct TxRecord {
    pub frf: u32,
    pub payload: Vec<u8>,
}

pub use crate::chip126x::Outcome;

pub struct Chip127x {
    /// true: SX1272/3 register layout, false: SX1276/7/8/9
    pub is_1272: bool,
    pub tcxo: bool,
    regs: [u8; 128],
    pub fifo: [u8; 256],
    pub valid: u32,
    pub tx_log: Vec<TxRecord>,
    pub resets: u32,
    /// what the chip was programmed with at each TX / RX start (full-stack configuration of the MAC world)
    pub tx_rf_log: Vec<(ChipRf, Vec<u8>)>,
    pub rx_rf_log: Vec<ChipRf>,
}

impl Chip127x {
    pub fn new(is_1272: bool, tcxo: bool) -> Self {
        let mut c = Chip127x { is_1272, tcxo, regs: [0; 128], fifo: [0; 256], valid: 0, tx_log: vec![], resets: 0, tx_rf_log: vec![], rx_rf_log: vec![] };
        c.por();
        c
    }

    fn por(&mut self) {
        self.regs = [0; 128];
        // reset values (SX1276 datasheet table 41 / SX1272 table 85); LoRa page values where the page differs
        let common: &[(u8, u8)] = &[
            (0x01, 0x09), // RegOpMode: FSK, standby
            (0x06, 0x6C),
            (0x07, 0x80),
            (0x08, 0x00),
            (0x0B, 0x2B),
            (0x0C, 0x20),
            (0x0E, 0x80),
            (0x0F, 0x00),
            (0x1F, 0x64),
            (0x21, 0x08),
            (0x22, 0x01),
            (0x23, 0xFF),
            (0x31, 0xC3),
            (0x33, 0x27),
            (0x37, 0x0A),
            (0x39, 0x12),
            (0x3B, 0x1D),
        ];
        for (a, v) in common {
            self.regs[*a as usize] = *v;
        }
        if self.is_1272 {
            for (a, v) in [(0x01u8, 0x01u8), (0x09, 0x0F), (0x0A, 0x19), (0x1D, 0x08), (0x1E, 0x74), (0x42, 0x22), (0x5A, 0x84), (0x58, 0x09)] {
                self.regs[a as usize] = v;
            }
        } else {
            for (a, v) in [(0x09u8, 0x4Fu8), (0x0A, 0x09), (0x1D, 0x72), (0x1E, 0x70), (0x26, 0x00), (0x42, 0x12), (0x4D, 0x84), (0x4B, 0x09)] {
                self.regs[a as usize] = v;
            }
        }
        self.fifo = [0; 256];
        self.valid = 0;
    }

    pub fn reset(&mut self, env: &mut Env) {
        self.por();
        self.resets += 1;
        env.tr(|| "chip: NRESET -> FSK standby, registers at reset values".into());
    }

    fn r(&self, a: u8) -> u8 {
        self.regs[(a & 0x7F) as usize]
    }
    fn set(&mut self, a: u8, v: u8) {
        self.regs[(a & 0x7F) as usize] = v;
    }

    pub fn lora(&self) -> bool {
        self.r(REG_OP_MODE) & 0x80 != 0
    }

    pub fn mode(&self) -> Mode {
        match self.r(REG_OP_MODE) & 0x07 {
            0 => Mode::Sleep,
            1 => Mode::Standby,
            2 => Mode::FsTx,
            3 => Mode::Tx,
            4 => Mode::FsRx,
            5 => Mode::RxContinuous,
            6 => Mode::RxSingle,
            _ => Mode::Cad,
        }
    }
    fn set_mode(&mut self, m: u8) {
        let v = (self.r(REG_OP_MODE) & !0x07) | (m & 7);
        self.set(REG_OP_MODE, v);
    }

    pub fn mode_class(&self) -> u8 {
        match self.mode() {
            Mode::Sleep => 0,
            Mode::Standby => 2,
            Mode::FsTx | Mode::FsRx => 3,
            Mode::Tx => 4,
            Mode::RxSingle => 5,
            Mode::RxContinuous => 6,
            Mode::Cad => 9,
        }
    }

    pub fn in_standby(&self) -> bool {
        self.mode() == Mode::Standby
    }

    /// Decode what the chip is programmed with right now (SX1276/77/78/79 and SX1272/73 datasheets: RegFrf,
    /// RegModemConfig1/2, RegPaConfig, RegPaDac, RegInvertIQ, RegPreamble).
    pub fn rf_now(&self) -> ChipRf {
        let mc1 = self.r(REG_MODEM_CONFIG1);
        let mc2 = self.r(REG_MODEM_CONFIG2);
        let (bw_khz, cr, crc_on) = if self.is_1272 {
            (
                match mc1 >> 6 {
                    0 => 125,
                    1 => 250,
                    2 => 500,
                    _ => 0,
                },
                4 + ((mc1 >> 3) & 7),
                mc1 & 0x02 != 0,
            )
        } else {
            (
                match mc1 >> 4 {
                    7 => 125,
                    8 => 250,
                    9 => 500,
                    6 => 62,
                    5 => 41,
                    4 => 31,
                    3 => 20,
                    2 => 15,
                    1 => 10,
                    0 => 7,
                    _ => 0,
                },
                4 + ((mc1 >> 1) & 7),
                mc2 & 0x04 != 0,
            )
        };
        let pa = self.r(REG_PA_CONFIG);
        let op = (pa & 0x0F) as i16;
        let dac20 = self.r(if self.is_1272 { 0x5A } else { 0x4D }) & 0x07 == 0x07;
        let power_dbm = if pa & 0x80 != 0 {
            Some(if dac20 { 5 + op } else { 2 + op })
        } else if self.is_1272 {
            Some(op - 1)
        } else {
            // Pout = Pmax - (15 - OutputPower), Pmax = 10.8 + 0.6 * MaxPower; rounded up to whole dBm
            let tenths = 108 + 6 * ((pa >> 4) & 7) as i16 - 150 + 10 * op;
            Some((tenths + 9).div_euclid(10))
        };
        ChipRf {
            freq_hz: ((self.frf() as u64 * 32_000_000) >> 19) as u32,
            sf: mc2 >> 4,
            bw_khz,
            cr,
            iq_inverted: self.r(0x33) & 0x40 != 0,
            crc_on,
            preamble: u16::from_be_bytes([self.r(REG_PREAMBLE_MSB), self.r(REG_PREAMBLE_LSB)]),
            power_dbm,
            sync: self.r(REG_SYNC_WORD) as u16,
        }
    }

    pub fn frf(&self) -> u32 {
        ((self.r(REG_FRF_MSB) as u32) << 16) | ((self.r(REG_FRF_MID) as u32) << 8) | self.r(REG_FRF_LSB) as u32
    }

    /// DIO0 | DIO1 (the harness' interface variant watches both, like `new_with_secondary_irq`).
    pub fn irq_line(&self) -> bool {
        let flags = self.r(REG_IRQ_FLAGS);
        let map = self.r(REG_DIO_MAPPING1);
        let dio0 = match map >> 6 {
            0 => flags & IRQ_RX_DONE != 0,
            1 => flags & IRQ_TX_DONE != 0,
            2 => flags & IRQ_CAD_DONE != 0,
            _ => false,
        };
        let dio1 = match (map >> 4) & 3 {
            0 => flags & IRQ_RX_TIMEOUT != 0,
            2 => flags & IRQ_CAD_DETECTED != 0,
            _ => false,
        };
        dio0 || dio1
    }

    /// masked flags never appear in RegIrqFlags
    fn raise(&mut self, flags: u8) {
        let f = self.r(REG_IRQ_FLAGS) | (flags & !self.r(REG_IRQ_FLAGS_MASK));
        self.set(REG_IRQ_FLAGS, f);
    }

    fn check_configured(&mut self, env: &mut Env, what: &'static str, mut need: u32, dio0_want: u8) {
        if !self.is_1272 && need & V_MC1 != 0 {
            need |= V_MC3; // SX1276: LowDataRateOptimize / AGC live in RegModemConfig3
        }
        if self.tcxo {
            need |= V_TCXO;
        }
        if env.rssi_only && what == "rx" {
            need &= !(V_SYNC | V_RX_BASE | V_PREAMBLE | V_SYMB_TIMEOUT | V_DIOMAP | V_IRQ_MASK);
        }
        let mut have = self.valid;
        if self.lora() {
            have |= V_LORA;
        }
        let missing = need & !have;
        if missing != 0 {
            env.alert(
                "C14.started-unconfigured",
                format!("sx127x|{}|{what}|{}", env.cur_op, valid_names(missing)),
                format!("{what} started by {}() but not programmed since the last reset: {} (programmed: {})", env.cur_op, valid_names(missing), valid_names(have)),
            );
            return;
        }
        if env.clean && !(env.rssi_only && what == "rx") && self.r(REG_DIO_MAPPING1) >> 6 != dio0_want {
            env.alert(
                "C14.started-unconfigured",
                format!("sx127x|{}|{what}|irq-routing", env.cur_op),
                format!("{what} started with RegDioMapping1={:#04x}: DIO0 does not carry the completion interrupt", self.r(REG_DIO_MAPPING1)),
            );
        }
    }

    fn write_reg(&mut self, env: &mut Env, a: u8, v: u8) {
        let lora = self.lora();
        match a {
            REG_FIFO => {
                if self.mode() == Mode::Sleep {
                    // datasheet 4.1.2.3 (SX1276): "the FIFO is not accessible in sleep mode" — monitor (b)
                    env.alert("C14.commanded-while-asleep", format!("sx127x|{}|fifo-write|sleep", env.cur_op), format!("{}() wrote the FIFO while the chip was in sleep mode (FIFO not accessible in sleep)", env.cur_op));
                    return;
                }
                let p = self.r(REG_FIFO_ADDR_PTR);
                self.fifo[p as usize] = v;
                self.set(REG_FIFO_ADDR_PTR, p.wrapping_add(1));
                self.valid |= V_FIFO;
            }
            REG_OP_MODE => {
                let cur = self.r(REG_OP_MODE);
                let was_sleep = cur & 7 == 0;
                let to_sleep = v & 7 == 0;
                // LongRangeMode "can be modified only in Sleep mode; a write operation on other device modes is
                // ignored". The model is lenient: a write that itself selects sleep may carry the new bit.
                let lr = if was_sleep || to_sleep { v & 0x80 } else { cur & 0x80 };
                if lr != v & 0x80 {
                    env.bump("probe.lora-bit-write-ignored");
                }
                let newv = lr | (v & 0x7F);
                let newmode = v & 7;
                if lr != 0 {
                    match newmode {
                        3 => {
                            self.set(REG_OP_MODE, newv);
                            self.check_configured(env, "tx", V_LORA | V_SYNC | V_TX_BASE | V_FRF | V_MC1 | V_MC2 | V_PREAMBLE | V_PAYLEN | V_PA_CONFIG | V_PA_RAMP | V_DIOMAP | V_IRQ_MASK | V_FIFO, 1);
                            let base = self.r(REG_FIFO_TX_BASE);
                            let len = self.r(REG_PAYLOAD_LENGTH);
                            let payload: Vec<u8> = (0..len).map(|i| self.fifo[base.wrapping_add(i) as usize]).collect();
                            self.tx_rf_log.push((self.rf_now(), payload.clone()));
                            self.tx_log.push(TxRecord { frf: self.frf(), payload });
                        }
                        5 => {
                            self.set(REG_OP_MODE, newv);
                            self.check_configured(env, "rx", V_LORA | V_SYNC | V_RX_BASE | V_FRF | V_MC1 | V_MC2 | V_PREAMBLE | V_DIOMAP | V_IRQ_MASK, 0);
                            self.rx_rf_log.push(self.rf_now());
                        }
                        6 => {
                            self.set(REG_OP_MODE, newv);
                            self.check_configured(env, "rx", V_LORA | V_SYNC | V_RX_BASE | V_FRF | V_MC1 | V_MC2 | V_PREAMBLE | V_SYMB_TIMEOUT | V_DIOMAP | V_IRQ_MASK, 0);
                            self.rx_rf_log.push(self.rf_now());
                        }
                        7 => {
                            self.set(REG_OP_MODE, newv);
                            self.check_configured(env, "cad", V_LORA | V_FRF | V_MC1 | V_MC2 | V_DIOMAP | V_IRQ_MASK, 2);
                        }
                        _ => self.set(REG_OP_MODE, newv),
                    }
                } else {
                    if matches!(newmode, 3 | 5 | 6 | 7) {
                        env.alert(
                            "C14.started-unconfigured",
                            format!("sx127x|{}|{}|lora-mode", env.cur_op, if newmode == 3 { "tx" } else { "rx" }),
                            format!("{}() started mode {newmode} while the chip is not in LoRa mode (LongRangeMode bit clear since the last reset)", env.cur_op),
                        );
                    }
                    self.set(REG_OP_MODE, newv);
                }
                if self.lora() {
                    self.valid |= V_LORA;
                }
            }
            REG_IRQ_FLAGS => {
                let f = self.r(REG_IRQ_FLAGS) & !v; // write 1 to clear
                self.set(REG_IRQ_FLAGS, f);
            }
            REG_FIFO_RX_CURRENT | REG_RX_NB_BYTES | REG_PKT_SNR | REG_PKT_RSSI | REG_RSSI | REG_VERSION => {} // read only
            _ => {
                self.set(a, v);
                // LoRa-page registers only count when written with the LoRa page selected
                let page_ok = lora || !(0x0D..=0x3F).contains(&a);
                if page_ok {
                    self.valid |= match a {
                        REG_SYNC_WORD => V_SYNC,
                        REG_FIFO_TX_BASE => V_TX_BASE,
                        REG_FIFO_RX_BASE => V_RX_BASE,
                        REG_FRF_MSB => V_FRF_MSB,
                        REG_FRF_MID => V_FRF_MID,
                        REG_FRF_LSB => V_FRF_LSB,
                        REG_MODEM_CONFIG1 => V_MC1,
                        REG_MODEM_CONFIG2 => V_MC2,
                        REG_MODEM_CONFIG3 => V_MC3,
                        REG_PREAMBLE_MSB => V_PREAMBLE_MSB,
                        REG_PREAMBLE_LSB => V_PREAMBLE_LSB,
                        REG_PAYLOAD_LENGTH => V_PAYLEN,
                        REG_PA_CONFIG => V_PA_CONFIG,
                        REG_PA_RAMP => V_PA_RAMP,
                        REG_DIO_MAPPING1 => V_DIOMAP,
                        REG_SYMB_TIMEOUT_LSB => V_SYMB_TIMEOUT,
                        REG_IRQ_FLAGS_MASK => V_IRQ_MASK,
                        REG_TCXO_1276 if !self.is_1272 => V_TCXO,
                        REG_TCXO_1272 if self.is_1272 => V_TCXO,
                        _ => 0,
                    };
                }
            }
        }
    }

    fn read_reg(&mut self, env: &mut Env, a: u8) -> u8 {
        if a == REG_FIFO {
            if self.mode() == Mode::Sleep {
                env.alert("C14.commanded-while-asleep", format!("sx127x|{}|fifo-read|sleep", env.cur_op), format!("{}() read the FIFO while the chip was in sleep mode (FIFO not accessible in sleep)", env.cur_op));
                return 0;
            }
            let p = self.r(REG_FIFO_ADDR_PTR);
            if p == 0xFF {
                env.bump("probe.chip-buffer-wrap-around-read");
            }
            self.set(REG_FIFO_ADDR_PTR, p.wrapping_add(1));
            self.fifo[p as usize]
        } else {
            self.r(a)
        }
    }

    /// One SPI transaction: address byte (bit 7 = write) then data; bursts auto-increment except at the FIFO port.
    pub fn transaction(&mut self, env: &mut Env, cmd: &[u8], nread: usize) -> Vec<u8> {
        let Some(&first) = cmd.first() else { return vec![0; nread] };
        let wnr = first & 0x80 != 0;
        let addr = first & 0x7F;
        let mut resp = Vec::with_capacity(nread);
        if wnr {
            for (i, b) in cmd[1..].iter().enumerate() {
                let a = if addr == REG_FIFO { addr } else { addr.wrapping_add(i as u8) & 0x7F };
                self.write_reg(env, a, *b);
            }
            if addr == REG_FIFO && cmd.len() == 1 && self.mode() != Mode::Sleep {
                // empty payload burst: nothing to load, the (empty) payload counts as loaded
                self.valid |= V_FIFO;
            }
            resp.resize(nread, 0);
        } else {
            for i in 0..nread {
                let a = if addr == REG_FIFO { addr } else { addr.wrapping_add(i as u8) & 0x7F };
                resp.push(self.read_reg(env, a));
            }
        }
        resp
    }

    pub fn fill_pattern(&mut self, seed: u8) {
        for i in 0..256usize {
            self.fifo[i] = crate::chip126x::pattern(seed, i as u8);
        }
    }

    /// C18: after RxDone the status registers hold whatever the script says.
    pub fn set_lie(&mut self, l: Lie127) {
        self.set(REG_RX_NB_BYTES, l.len);
        self.set(REG_FIFO_RX_CURRENT, l.offset);
        self.set(REG_PKT_SNR, l.snr);
        self.set(REG_PKT_RSSI, l.rssi);
    }

    pub fn apply_outcome(&mut self, env: &mut Env, out: Outcome, payload: &[u8], cad_detected: bool) -> bool {
        if !self.lora() {
            return false;
        }
        match self.mode() {
            Mode::Tx => match out {
                Outcome::Done => {
                    env.now_us += 30_000;
                    self.raise(IRQ_TX_DONE);
                    self.set_mode(1); // TX returns to standby by itself
                    true
                }
                _ => false,
            },
            m @ (Mode::RxSingle | Mode::RxContinuous) => match out {
                Outcome::Done | Outcome::CrcError => {
                    env.now_us += 40_000;
                    let base = self.r(REG_FIFO_RX_BASE);
                    for (i, b) in payload.iter().enumerate() {
                        self.fifo[base.wrapping_add(i as u8) as usize] = *b;
                    }
                    self.set(REG_RX_NB_BYTES, payload.len() as u8);
                    self.set(REG_FIFO_RX_CURRENT, base);
                    self.set(REG_PKT_SNR, 20);
                    self.set(REG_PKT_RSSI, 100);
                    self.raise(IRQ_VALID_HEADER | IRQ_RX_DONE | if out == Outcome::CrcError { IRQ_CRC_ERROR } else { 0 });
                    if m == Mode::RxSingle {
                        self.set_mode(1);
                    }
                    true
                }
                Outcome::Preamble => {
                    env.now_us += 2_000;
                    self.raise(IRQ_VALID_HEADER);
                    true
                }
                Outcome::Timeout | Outcome::PreambleTimeout => {
                    if m == Mode::RxSingle {
                        env.now_us += 20_000;
                        self.raise(IRQ_RX_TIMEOUT);
                        self.set_mode(1);
                        true
                    } else {
                        false
                    }
                }
                // no header-error interrupt exists on this family: the modem silently keeps listening
                Outcome::HeaderError => false,
            },
            Mode::Cad => match out {
                Outcome::Done => {
                    env.now_us += 5_000;
                    self.raise(IRQ_CAD_DONE | if cad_detected { IRQ_CAD_DETECTED } else { 0 });
                    self.set_mode(1);
                    true
                }
                _ => false,
            },
            _ => false,
        }
    }
}
