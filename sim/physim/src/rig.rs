//! Building the device under test (real `LoRa` + real chip driver + real `LorawanRadio` on the simulated
//! seams), the poll loop with cancellation, and the panic guard around calls into lora-phy.

use crate::chip126x::{Board126, Chip126x};
use crate::chip127x::Chip127x;
use crate::world::*;
use serde::{Deserialize, Serialize};
use simcore::{location_is_harness, panic_message, take_last_panic_location};
use std::future::Future;
use std::panic::{catch_unwind, resume_unwind, AssertUnwindSafe};
use std::task::{Context, Poll, Waker};

#[derive(Clone, Copy, Debug, PartialEq, Eq, Serialize, Deserialize, PartialOrd, Ord)]
pub enum ChipKind {
    Sx1261,
    Sx1262,
    Stm32wl,
    Sx1272,
    Sx1276,
}
pub const ALL_CHIPS: [ChipKind; 5] = [ChipKind::Sx1261, ChipKind::Sx1262, ChipKind::Stm32wl, ChipKind::Sx1272, ChipKind::Sx1276];

impl ChipKind {
    pub fn is_126x(self) -> bool {
        matches!(self, ChipKind::Sx1261 | ChipKind::Sx1262 | ChipKind::Stm32wl)
    }
    pub fn family(self) -> &'static str {
        if self.is_126x() {
            "sx126x"
        } else {
            "sx127x"
        }
    }
}

/// Board options handed to the driver's `Config` (and, as obligations, to the chip model).
#[derive(Clone, Copy, Debug, PartialEq, Eq, Serialize, Deserialize, Default)]
pub struct Board {
    pub tcxo: bool,
    pub dcdc: bool,
    pub rx_boost: bool,
    /// sx127x: PA_BOOST; stm32wl: high-power PA
    pub tx_boost: bool,
}

pub fn make_world(kind: ChipKind, board: Board, want_trace: bool) -> WorldRef {
    let chip = match kind {
        ChipKind::Sx1261 | ChipKind::Sx1262 => Chip::C126(Box::new(Chip126x::new(Board126 { dcdc: board.dcdc, dio2_rf_switch: true, tcxo: board.tcxo }))),
        // the STM32WL variant reports use_dio2_as_rfswitch() == false
        ChipKind::Stm32wl => Chip::C126(Box::new(Chip126x::new(Board126 { dcdc: board.dcdc, dio2_rf_switch: false, tcxo: board.tcxo }))),
        ChipKind::Sx1272 => Chip::C127(Box::new(Chip127x::new(true, board.tcxo))),
        ChipKind::Sx1276 => Chip::C127(Box::new(Chip127x::new(false, board.tcxo))),
    };
    World::new(chip, want_trace)
}

/// Run `$body` with `$rk` bound to the real chip driver for `$kind`, built on the simulated seams.
#[macro_export]
macro_rules! with_radio_kind {
    ($kind:expr, $board:expr, $world:expr, |$rk:ident| $body:expr) => {{
        use lora_phy::sx126x::{Config as C126, Stm32wl, Sx1261, Sx1262, Sx126x, TcxoCtrlVoltage};
        use lora_phy::sx127x::{Config as C127, Sx1272, Sx1276, Sx127x};
        use $crate::rig::ChipKind;
        use $crate::world::{SimIv, SimSpi};
        let w = $world.clone();
        let b = $board;
        let tcxo = if b.tcxo { Some(TcxoCtrlVoltage::Ctrl1V7) } else { None };
        match $kind {
            ChipKind::Sx1261 => {
                let $rk = Sx126x::new(SimSpi(w.clone()), SimIv(w.clone()), C126 { chip: Sx1261, tcxo_ctrl: tcxo, use_dcdc: b.dcdc, rx_boost: b.rx_boost });
                $body
            }
            ChipKind::Sx1262 => {
                let $rk = Sx126x::new(SimSpi(w.clone()), SimIv(w.clone()), C126 { chip: Sx1262, tcxo_ctrl: tcxo, use_dcdc: b.dcdc, rx_boost: b.rx_boost });
                $body
            }
            ChipKind::Stm32wl => {
                let $rk = Sx126x::new(SimSpi(w.clone()), SimIv(w.clone()), C126 { chip: Stm32wl { use_high_power_pa: b.tx_boost }, tcxo_ctrl: tcxo, use_dcdc: b.dcdc, rx_boost: b.rx_boost });
                $body
            }
            ChipKind::Sx1272 => {
                let $rk = Sx127x::new(SimSpi(w.clone()), SimIv(w.clone()), C127 { chip: Sx1272, tcxo_used: b.tcxo, tx_boost: b.tx_boost, rx_boost: b.rx_boost });
                $body
            }
            ChipKind::Sx1276 => {
                let $rk = Sx127x::new(SimSpi(w.clone()), SimIv(w.clone()), C127 { chip: Sx1276, tcxo_used: b.tcxo, tx_boost: b.tx_boost, rx_boost: b.rx_boost });
                $body
            }
        }
    }};
}

pub enum Driven<T> {
    Ready(T),
    /// the future was dropped at a pending wait
    Dropped(Pend),
}

/// Poll `fut` with a no-op waker. Each time it is pending (only possible at `await_irq` with the line low or at
/// `wait_on_busy` on a sleeping chip) `on_pend` decides: `true` = the world was changed, poll again;
/// `false` = drop the future here (cancellation).
pub fn drive<T>(world: &WorldRef, fut: impl Future<Output = T>, mut on_pend: impl FnMut(&mut World, Pend) -> bool) -> Driven<T> {
    let mut fut = std::pin::pin!(fut);
    let mut cx = Context::from_waker(Waker::noop());
    loop {
        match fut.as_mut().poll(&mut cx) {
            Poll::Ready(v) => return Driven::Ready(v),
            Poll::Pending => {
                let mut w = world.borrow_mut();
                let Some(p) = w.pend.take() else { panic!("harness: future pending outside a simulated wait") };
                if !on_pend(&mut w, p) {
                    return Driven::Dropped(p);
                }
            }
        }
    }
}

/// Drive a future that is not expected to wait for anything the harness has to supply.
pub fn drive_now<T>(world: &WorldRef, fut: impl Future<Output = T>) -> Driven<T> {
    drive(world, fut, |_, _| false)
}

#[derive(Clone, Debug)]
pub struct DevicePanic {
    pub msg: String,
    pub loc: String,
    pub livelock: bool,
}

/// Run a call into lora-phy; a panic raised by the device code (or its dependencies) is returned, a panic
/// raised by the harness is propagated (the driver turns it into exit 2).
pub fn guarded<T>(f: impl FnOnce() -> T) -> Result<T, DevicePanic> {
    match catch_unwind(AssertUnwindSafe(f)) {
        Ok(v) => Ok(v),
        Err(p) => {
            let msg = panic_message(&*p);
            let loc = take_last_panic_location().unwrap_or_default();
            if msg.contains("SIM-LIVELOCK") {
                return Err(DevicePanic { msg, loc, livelock: true });
            }
            if location_is_harness(&loc) {
                resume_unwind(p);
            }
            Err(DevicePanic { msg, loc, livelock: false })
        }
    }
}

/// `…/lora-phy/src/sx126x/mod.rs:658:20` -> `lora-phy/src/sx126x/mod.rs:658`
pub fn short_loc(loc: &str) -> String {
    let l = loc.rsplit_once(':').map(|x| x.0).unwrap_or(loc); // drop the column
    match l.find("lora-phy/") {
        Some(i) => l[i..].to_string(),
        None => match l.find("/registry/src/") {
            Some(i) => l[i + 14..].split_once('/').map(|x| x.1.to_string()).unwrap_or_else(|| l.to_string()),
            None => l.to_string(),
        },
    }
}
