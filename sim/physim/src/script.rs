//! C14 script language: a case is a chip/board choice plus a list of steps; a step is one API call with the
//! simulated delay before it, an optional transport fault at a position inside it, and the list of things
//! that happen each time the call waits for the IRQ line (chip outcomes, spurious wake, cancellation).

use crate::rig::{Board, ChipKind};
use crate::world::Fault;
use serde::{Deserialize, Serialize};
use simcore::shrink::Shrinkable;

#[derive(Clone, Copy, Debug, PartialEq, Eq, Serialize, Deserialize)]
pub enum RxM {
    Single(u16),
    Continuous,
    /// periods in units of 15.625 us
    Duty { rx: u32, sleep: u32 },
}

#[derive(Clone, Copy, Debug, PartialEq, Eq, Serialize, Deserialize)]
pub enum Op {
    Init,
    Sleep { warm: bool },
    PrepTx { ch: u8, dr: u8, power: i8, len: u8 },
    Tx,
    PrepRx { mode: RxM, ch: u8, dr: u8, implicit: bool, len: u8 },
    StartRx,
    CompleteRx { buf: u16 },
    Rx { buf: u16 },
    SwitchChannel { ch: u8 },
    Listen { ch: u8 },
    PrepCad { ch: u8, dr: u8 },
    Cad,
    SetSyncWord { word: u16 },
    // the same chip through the LoRaWAN adapter (PhyRxTx)
    LwTx { ch: u8, dr: u8, power: i8, len: u8 },
    LwSetupRx { ch: u8, dr: u8, continuous: bool, ms: u16 },
    LwRxSingle { buf: u16 },
    LwRxContinuous { buf: u16 },
    LwLowPower,
}

impl Op {
    pub fn name(&self) -> &'static str {
        match self {
            Op::Init => "init",
            Op::Sleep { .. } => "sleep",
            Op::PrepTx { .. } => "prepare_for_tx",
            Op::Tx => "tx",
            Op::PrepRx { .. } => "prepare_for_rx",
            Op::StartRx => "start_rx",
            Op::CompleteRx { .. } => "complete_rx",
            Op::Rx { .. } => "rx",
            Op::SwitchChannel { .. } => "rx_switch_channel",
            Op::Listen { .. } => "listen",
            Op::PrepCad { .. } => "prepare_for_cad",
            Op::Cad => "cad",
            Op::SetSyncWord { .. } => "set_lora_sync_word",
            Op::LwTx { .. } => "lorawan.tx",
            Op::LwSetupRx { .. } => "lorawan.setup_rx",
            Op::LwRxSingle { .. } => "lorawan.rx_single",
            Op::LwRxContinuous { .. } => "lorawan.rx_continuous",
            Op::LwLowPower => "lorawan.low_power",
        }
    }
    /// does the call contain a wait for the IRQ line?
    pub fn waits(&self) -> bool {
        matches!(self, Op::Tx | Op::CompleteRx { .. } | Op::Rx { .. } | Op::Cad | Op::LwTx { .. } | Op::LwRxSingle { .. } | Op::LwRxContinuous { .. })
    }
}

#[derive(Clone, Copy, Debug, PartialEq, Eq, Serialize, Deserialize)]
pub enum Irq {
    /// TxDone / RxDone with a good packet of `len` bytes / CadDone (`cad`: activity detected)
    Done { len: u8, cad: bool },
    Timeout,
    CrcError { len: u8 },
    HeaderError,
    Preamble,
    /// single-shot reception: a false preamble / valid header and then the symbol timeout, both latched before the
    /// host reads the interrupt status (SX127x: a plain timeout)
    PreambleTimeout,
    /// the IRQ wait completes although no flag is set
    Spurious,
    /// drop the future at this wait; `chip_completes`: the chip finishes its operation afterwards
    Cancel { chip_completes: bool },
}

impl Irq {
    pub fn kind(&self) -> u8 {
        match self {
            Irq::Done { .. } => 1,
            Irq::Timeout => 2,
            Irq::CrcError { .. } => 3,
            Irq::HeaderError => 4,
            Irq::Preamble => 5,
            Irq::PreambleTimeout => 8,
            Irq::Spurious => 6,
            Irq::Cancel { .. } => 7,
        }
    }
}

#[derive(Clone, Debug, PartialEq, Eq, Serialize, Deserialize)]
pub struct Step {
    pub op: Op,
    /// simulated time passing before the call
    #[serde(default)]
    pub gap_us: u32,
    #[serde(default)]
    pub fault: Option<Fault>,
    /// consumed one by one whenever the call waits on the IRQ line; when exhausted the operation completes
    /// normally once (implicit Done), after that the future is dropped
    #[serde(default)]
    pub irqs: Vec<Irq>,
}

impl Step {
    pub fn of(op: Op) -> Step {
        Step { op, gap_us: 0, fault: None, irqs: vec![] }
    }
    pub fn with(op: Op, irqs: Vec<Irq>) -> Step {
        Step { op, gap_us: 0, fault: None, irqs }
    }
}

#[derive(Clone, Debug, Serialize, Deserialize)]
pub struct C14Case {
    pub chip: ChipKind,
    pub board: Board,
    pub steps: Vec<Step>,
    /// known-finding triggers the execution must stay away from (copied from the generator's avoid set)
    #[serde(default)]
    pub avoid: Vec<String>,
}

impl Shrinkable for C14Case {
    fn parts(&self) -> usize {
        self.steps.len()
    }
    fn without(&self, lo: usize, hi: usize) -> Self {
        let mut c = self.clone();
        c.steps.drain(lo..hi.min(c.steps.len()));
        c
    }
    fn simplifications(&self) -> Vec<Self> {
        let mut v = Vec::new();
        if self.board != Board::default() {
            let mut c = self.clone();
            c.board = Board::default();
            v.push(c);
        }
        for (i, s) in self.steps.iter().enumerate() {
            if s.fault.is_some() {
                let mut c = self.clone();
                c.steps[i].fault = None;
                v.push(c);
            }
            if !s.irqs.is_empty() {
                let mut c = self.clone();
                c.steps[i].irqs.clear();
                v.push(c);
                for j in 0..s.irqs.len() {
                    let mut c = self.clone();
                    c.steps[i].irqs.remove(j);
                    v.push(c);
                }
            }
            if s.gap_us != 0 {
                let mut c = self.clone();
                c.steps[i].gap_us = 0;
                v.push(c);
            }
            if let Some(f) = s.fault {
                if f.at > 0 {
                    let mut c = self.clone();
                    c.steps[i].fault = Some(Fault { kind: f.kind, at: f.at / 2 });
                    v.push(c);
                }
            }
        }
        v
    }
}

pub const CHANNELS: [u32; 7] = [868_100_000, 868_300_000, 869_525_000, 903_900_000, 923_300_000, 433_175_000, 490_000_000];
