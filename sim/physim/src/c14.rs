//! C14 — the PHY driver and the radio chip never disagree about the radio's state.
//!
//! Generator (systematic fault/cancellation enumeration over canonical scenarios + seeded random scripts),
//! execution (see exec14.rs for the monitors) and evidence plumbing.

use crate::exec14::*;
use crate::rig::*;
use crate::script::*;
use crate::with_radio_kind;
use crate::world::*;
use lora_phy::mod_traits::RadioKind;
use simcore::*;
use std::collections::BTreeSet;
use std::sync::OnceLock;

pub struct C14;

const DUTY: RxM = RxM::Duty { rx: 640, sleep: 1280 }; // 10 ms RX, 20 ms sleep
const SINGLE: RxM = RxM::Single(20);

fn prep_tx() -> Op {
    Op::PrepTx { ch: 0, dr: 0, power: 14, len: 12 }
}
fn prep_rx(mode: RxM) -> Op {
    Op::PrepRx { mode, ch: 0, dr: 0, implicit: false, len: 255 }
}
fn done(len: u8) -> Irq {
    Irq::Done { len, cad: false }
}

/// Canonical scenarios the systematic part walks faults and cancellations over.
fn scenarios() -> Vec<Vec<Step>> {
    let s = Step::of;
    let w = Step::with;
    let gap = |op: Op, gap_us: u32| Step { op, gap_us, fault: None, irqs: vec![] };
    vec![
        vec![s(prep_tx()), s(Op::Tx)],
        vec![s(Op::Sleep { warm: false }), s(prep_tx()), s(Op::Tx)],
        vec![s(Op::Sleep { warm: true }), s(prep_tx()), s(Op::Tx)],
        vec![s(prep_rx(SINGLE)), w(Op::Rx { buf: 64 }, vec![done(12)])],
        vec![s(prep_rx(SINGLE)), s(Op::StartRx), w(Op::CompleteRx { buf: 64 }, vec![Irq::Timeout]), s(prep_tx()), s(Op::Tx)],
        vec![s(prep_rx(RxM::Continuous)), s(Op::StartRx), w(Op::CompleteRx { buf: 64 }, vec![done(20)]), s(Op::SwitchChannel { ch: 1 }), w(Op::CompleteRx { buf: 64 }, vec![Irq::Preamble, done(5)])],
        vec![s(prep_rx(DUTY)), s(Op::StartRx), w(Op::CompleteRx { buf: 64 }, vec![Irq::Preamble, done(7)]), s(Op::Sleep { warm: true })],
        vec![s(Op::Sleep { warm: false }), s(prep_rx(SINGLE)), w(Op::Rx { buf: 255 }, vec![done(30)])],
        vec![s(Op::PrepCad { ch: 0, dr: 1 }), w(Op::Cad, vec![Irq::Done { len: 0, cad: true }])],
        vec![s(Op::Sleep { warm: false }), s(Op::PrepCad { ch: 2, dr: 0 }), s(Op::Cad), s(prep_tx()), s(Op::Tx)],
        vec![s(Op::Listen { ch: 0 }), s(prep_tx()), s(Op::Tx)],
        vec![s(Op::SetSyncWord { word: 0x1424 }), s(prep_tx()), s(Op::Tx), s(Op::Sleep { warm: false }), s(Op::SetSyncWord { word: 0x3444 })],
        vec![s(Op::Init), s(prep_tx()), s(Op::Tx), s(Op::Sleep { warm: false }), s(Op::Init), s(Op::Listen { ch: 3 })],
        vec![
            s(Op::LwTx { ch: 0, dr: 0, power: 14, len: 23 }),
            s(Op::LwSetupRx { ch: 0, dr: 0, continuous: false, ms: 10 }),
            w(Op::LwRxSingle { buf: 256 }, vec![Irq::Timeout]),
            s(Op::LwSetupRx { ch: 2, dr: 2, continuous: false, ms: 10 }),
            w(Op::LwRxSingle { buf: 256 }, vec![done(17)]),
            s(Op::LwLowPower),
            s(Op::LwTx { ch: 1, dr: 1, power: 2, len: 13 }),
        ],
        vec![
            s(Op::LwSetupRx { ch: 2, dr: 0, continuous: true, ms: 0 }),
            w(Op::LwRxContinuous { buf: 256 }, vec![done(14)]),
            w(Op::LwRxContinuous { buf: 256 }, vec![Irq::Cancel { chip_completes: false }]),
            s(Op::LwTx { ch: 1, dr: 0, power: 14, len: 5 }),
            s(Op::LwLowPower),
        ],
        // calls in the wrong mode
        vec![s(Op::Tx), s(Op::StartRx), s(Op::CompleteRx { buf: 16 }), s(Op::Cad), s(Op::SwitchChannel { ch: 1 }), s(Op::Rx { buf: 16 }), s(Op::Sleep { warm: false }), s(Op::Tx), s(Op::StartRx), s(Op::Cad)],
        vec![s(prep_tx()), s(Op::StartRx), s(Op::Cad), s(Op::Tx), s(Op::Tx), s(prep_rx(SINGLE)), s(Op::Tx), s(Op::Cad), s(Op::PrepCad { ch: 0, dr: 0 }), s(Op::Tx), s(Op::StartRx), s(Op::Listen { ch: 0 }), s(Op::StartRx), s(Op::Tx)],
        // RxDutyCycle with the next command inside / outside a sleep phase
        vec![s(prep_rx(DUTY)), s(Op::StartRx), gap(Op::SwitchChannel { ch: 1 }, 15_000)],
        vec![s(prep_rx(DUTY)), s(Op::StartRx), gap(Op::StartRx, 15_000)],
        vec![s(prep_rx(DUTY)), s(Op::StartRx), gap(Op::CompleteRx { buf: 64 }, 15_000)],
        vec![s(prep_rx(DUTY)), s(Op::StartRx), gap(prep_tx(), 15_000), s(Op::Tx)],
        vec![s(prep_rx(DUTY)), s(Op::StartRx), gap(Op::Sleep { warm: false }, 45_000), s(prep_rx(DUTY)), s(Op::Rx { buf: 64 })],
        vec![s(Op::PrepCad { ch: 0, dr: 0 }), w(Op::Cad, vec![Irq::Spurious, Irq::Done { len: 0, cad: false }])],
        vec![s(prep_tx()), w(Op::Tx, vec![Irq::Timeout]), s(prep_tx()), s(Op::Tx)],
        vec![s(prep_rx(SINGLE)), w(Op::Rx { buf: 4 }, vec![done(12)]), s(Op::StartRx)],
        vec![s(prep_rx(RxM::Continuous)), w(Op::Rx { buf: 64 }, vec![Irq::CrcError { len: 9 }]), w(Op::CompleteRx { buf: 64 }, vec![Irq::HeaderError, done(3)]), s(Op::Sleep { warm: true }), s(prep_rx(RxM::Continuous)), s(Op::Rx { buf: 64 })],
    ]
}

const POSITIONS: usize = 57;
const IRQ_VARIANTS: usize = 10;

/// Flattened (scenario, step, variant) table of the systematic part; variant 0 = undisturbed.
fn systematic_table() -> &'static Vec<(usize, usize, usize)> {
    static T: OnceLock<Vec<(usize, usize, usize)>> = OnceLock::new();
    T.get_or_init(|| {
        let mut t = Vec::new();
        for (si, sc) in scenarios().iter().enumerate() {
            t.push((si, 0, 0));
            for (j, st) in sc.iter().enumerate() {
                for v in 1..=(2 * POSITIONS + 3) {
                    t.push((si, j, v));
                }
                if st.op.waits() {
                    for v in 0..IRQ_VARIANTS {
                        t.push((si, j, 2 * POSITIONS + 4 + v));
                    }
                }
            }
        }
        t
    })
}

fn systematic(run: u64) -> Option<C14Case> {
    let t = systematic_table();
    let chip = ALL_CHIPS[(run % 5) as usize];
    let k = (run / 5) as usize;
    let &(si, j, v) = t.get(k)?;
    let mut steps = scenarios().swap_remove(si);
    if v >= 1 {
        let st = &mut steps[j];
        if v <= POSITIONS {
            st.fault = Some(Fault { kind: FaultKind::Spi, at: (v - 1) as u16 });
        } else if v <= 2 * POSITIONS {
            st.fault = Some(Fault { kind: FaultKind::Busy, at: (v - 1 - POSITIONS) as u16 });
        } else if v <= 2 * POSITIONS + 3 {
            st.fault = Some(Fault { kind: FaultKind::Irq, at: (v - 1 - 2 * POSITIONS) as u16 });
        } else {
            let iv = v - (2 * POSITIONS + 4);
            let orig = std::mem::take(&mut st.irqs);
            st.irqs = match iv {
                0 => vec![Irq::Cancel { chip_completes: false }],
                1 => vec![Irq::Cancel { chip_completes: true }],
                2 => [vec![Irq::Spurious], orig].concat(),
                3 => [vec![Irq::Preamble, Irq::Cancel { chip_completes: true }]].concat(),
                4 => [vec![Irq::HeaderError], orig].concat(),
                5 => vec![Irq::CrcError { len: 11 }],
                6 => vec![Irq::Timeout],
                7 => [vec![Irq::Spurious, Irq::Spurious, Irq::Preamble], orig].concat(),
                8 => vec![Irq::PreambleTimeout],
                _ => vec![Irq::Preamble, Irq::Timeout],
            };
        }
    }
    // board options rotate with the scenario so every variant sees TCXO / DC-DC boards
    let board = Board { tcxo: (si + j) % 3 == 1, dcdc: (si + j) % 2 == 1, rx_boost: si % 2 == 0, tx_boost: j % 2 == 0 };
    Some(C14Case { chip, board, steps, avoid: vec![] })
}

// ----- bounded-depth enumeration of API call sequences ("all API call sequences up to bounded depth") -----

const ENUM_LETTERS: u64 = 26;

fn enum_letter(l: u64) -> Step {
    let done = Irq::Done { len: 12, cad: true };
    match l {
        0 => Step::of(Op::Init),
        1 => Step::of(Op::Sleep { warm: true }),
        2 => Step::of(Op::Sleep { warm: false }),
        3 => Step::of(Op::PrepTx { ch: 1, dr: 2, power: 14, len: 12 }),
        4 => Step::of(Op::Tx),
        5 => Step::of(Op::PrepRx { mode: RxM::Single(20), ch: 2, dr: 1, implicit: false, len: 0 }),
        6 => Step::of(Op::PrepRx { mode: RxM::Continuous, ch: 2, dr: 1, implicit: false, len: 0 }),
        7 => Step::of(Op::PrepRx { mode: DUTY, ch: 2, dr: 1, implicit: false, len: 0 }),
        8 => Step::of(Op::StartRx),
        9 => Step::with(Op::CompleteRx { buf: 255 }, vec![done]),
        10 => Step::with(Op::CompleteRx { buf: 255 }, vec![Irq::Timeout]),
        11 => Step::with(Op::Rx { buf: 255 }, vec![done]),
        12 => Step::of(Op::SwitchChannel { ch: 3 }),
        13 => Step::of(Op::Listen { ch: 2 }),
        14 => Step::of(Op::PrepCad { ch: 4, dr: 3 }),
        15 => Step::with(Op::Cad, vec![done]),
        16 => Step::of(Op::SetSyncWord { word: 0x3444 }),
        17 => Step::of(Op::LwTx { ch: 1, dr: 2, power: 14, len: 23 }),
        18 => Step::of(Op::LwSetupRx { ch: 2, dr: 1, continuous: false, ms: 10 }),
        19 => Step::of(Op::LwSetupRx { ch: 2, dr: 1, continuous: true, ms: 10 }),
        20 => Step::with(Op::LwRxSingle { buf: 256 }, vec![done]),
        21 => Step::with(Op::LwRxSingle { buf: 256 }, vec![Irq::Timeout]),
        22 => Step::with(Op::LwRxContinuous { buf: 256 }, vec![done]),
        23 => Step::of(Op::LwLowPower),
        24 => Step::with(Op::CompleteRx { buf: 255 }, vec![Irq::CrcError { len: 11 }]),
        _ => Step::with(Op::CompleteRx { buf: 255 }, vec![Irq::Cancel { chip_completes: true }]),
    }
}

fn enum_max_depth(tier: Tier) -> u32 {
    match tier {
        Tier::Quick => 3,
        Tier::Thorough => 4,
    }
}

/// number of enumerated cases of depth 1..=d (5 chip variants each)
fn enum_total(d: u32) -> u64 {
    (1..=d).map(|k| 5 * ENUM_LETTERS.pow(k)).sum()
}

/// The `index`-th enumerated case: every sequence of 1, then 2, ... calls over the 26-letter alphabet on every chip
/// variant, undisturbed (faults and cancellations belong to the systematic and the seeded parts).
fn enumerated(index: u64, max_depth: u32) -> Option<C14Case> {
    let mut i = index;
    let mut depth = 1;
    loop {
        if depth > max_depth {
            return None;
        }
        let b = 5 * ENUM_LETTERS.pow(depth);
        if i < b {
            break;
        }
        i -= b;
        depth += 1;
    }
    let chip = ALL_CHIPS[(i % 5) as usize];
    let mut seq = i / 5;
    let mut steps = Vec::new();
    for _ in 0..depth {
        steps.push(enum_letter(seq % ENUM_LETTERS));
        seq /= ENUM_LETTERS;
    }
    let k = (index / 5) as usize;
    let board = Board { tcxo: k % 3 == 1, dcdc: k % 2 == 1, rx_boost: k % 5 < 2, tx_boost: k % 7 < 3 };
    Some(C14Case { chip, board, steps, avoid: vec![] })
}

fn gen_irqs(r: &mut Rng, op: &Op, cancel_pct: u64) -> Vec<Irq> {
    if !op.waits() {
        return vec![];
    }
    let mut v = Vec::new();
    let n = r.weighted(&[45, 35, 15, 5]);
    for _ in 0..n {
        if r.chance(cancel_pct, 100) {
            v.push(Irq::Cancel { chip_completes: r.chance(1, 2) });
            break;
        }
        let len = *r.pick(&[0u8, 1, 12, 23, 64, 200, 255]);
        v.push(match r.weighted(&[40, 15, 8, 8, 12, 12, 5]) {
            6 => Irq::PreambleTimeout,
            0 => Irq::Done { len, cad: r.chance(1, 2) },
            1 => Irq::Timeout,
            2 => Irq::CrcError { len },
            3 => Irq::HeaderError,
            4 => Irq::Preamble,
            _ => Irq::Spurious,
        });
    }
    v
}

fn gen_op(r: &mut Rng, guess: &mut u8) -> Op {
    // guess: 0 standby, 1 sleep, 2 prepared-tx, 3 prepared-rx, 4 prepared-cad, 5 listen
    let ch = r.below(7) as u8;
    let dr = r.below(5) as u8;
    let buf = *r.pick(&[0u16, 4, 64, 255, 256]);
    let mode = match r.below(4) {
        0 => RxM::Continuous,
        1 => {
            if r.chance(1, 2) {
                DUTY
            } else {
                RxM::Duty { rx: 64, sleep: 640 }
            }
        }
        _ => RxM::Single(*r.pick(&[0u16, 5, 20, 300])),
    };
    let natural = r.chance(65, 100);
    let pick = if natural {
        match *guess {
            2 => 3,                                       // tx
            3 => *r.pick(&[5usize, 6, 6, 7, 7, 8]),       // start_rx / complete_rx / rx / switch
            4 => 11,                                      // cad
            1 => *r.pick(&[0usize, 2, 4, 10, 12, 13, 14]), // out of sleep
            _ => *r.pick(&[1usize, 1, 2, 2, 4, 4, 4, 9, 10, 12, 13, 14, 17]),
        }
    } else {
        r.usize_below(18)
    };
    let op = match pick {
        0 => Op::Init,
        1 => Op::Sleep { warm: r.chance(1, 2) },
        2 => Op::PrepTx { ch, dr, power: r.range(-9, 22) as i8, len: *r.pick(&[0u8, 1, 12, 51, 255]) },
        3 => Op::Tx,
        4 => Op::PrepRx { mode, ch, dr, implicit: r.chance(1, 5), len: *r.pick(&[12u8, 64, 255]) },
        5 => Op::StartRx,
        6 => Op::CompleteRx { buf },
        7 => Op::Rx { buf },
        8 => Op::SwitchChannel { ch },
        9 => Op::Listen { ch },
        10 => Op::PrepCad { ch, dr },
        11 => Op::Cad,
        12 => Op::SetSyncWord { word: *r.pick(&[0x3444u16, 0x1424, 0x2414, 0x1234]) },
        13 => Op::LwTx { ch, dr, power: r.range(-4, 22) as i8, len: *r.pick(&[1u8, 13, 23, 64, 255]) },
        14 => Op::LwSetupRx { ch, dr, continuous: r.chance(1, 3), ms: *r.pick(&[0u16, 10, 50]) },
        15 => Op::LwRxSingle { buf: 256 },
        16 => Op::LwRxContinuous { buf: 256 },
        _ => Op::LwLowPower,
    };
    *guess = match op {
        Op::Init | Op::Tx | Op::Cad | Op::SetSyncWord { .. } | Op::LwTx { .. } => 0,
        Op::Sleep { .. } | Op::LwLowPower => 1,
        Op::PrepTx { .. } => 2,
        Op::PrepRx { .. } | Op::LwSetupRx { .. } => 3,
        Op::PrepCad { .. } => 4,
        Op::Listen { .. } => 5,
        _ => *guess,
    };
    if matches!(op, Op::LwSetupRx { .. }) && r.chance(2, 3) {
        // the adapter's receive calls only make sense after its setup_rx
        *guess = 3;
    }
    op
}

fn random_case(seed: u64, run: u64) -> C14Case {
    let mut r = Rng::new(run_seed(seed, "C14", run));
    let chip = *r.pick(&ALL_CHIPS);
    let board = Board { tcxo: r.chance(1, 3), dcdc: r.chance(1, 3), rx_boost: r.chance(1, 2), tx_boost: r.chance(1, 2) };
    // swarm: which disturbances are enabled in this run, and how often
    let fault_pct = *r.pick(&[0u64, 0, 10, 30]);
    let cancel_pct = *r.pick(&[0u64, 0, 10, 25]);
    let gaps = r.chance(1, 2);
    let lw_only = r.chance(1, 5);
    let n = r.range(2, 12) as usize;
    let mut guess = 0u8;
    let mut steps = Vec::with_capacity(n);
    let mut lw_guess_rx = false;
    while steps.len() < n {
        let mut op = gen_op(&mut r, &mut guess);
        if lw_only {
            // a run that talks to the chip only through the adapter, the way the MAC does
            op = match op {
                Op::Init | Op::PrepTx { .. } | Op::Tx | Op::Cad | Op::PrepCad { .. } | Op::SetSyncWord { .. } | Op::Listen { .. } => Op::LwTx { ch: r.below(7) as u8, dr: r.below(5) as u8, power: r.range(0, 20) as i8, len: *r.pick(&[13u8, 23, 64]) },
                Op::PrepRx { ch, dr, mode, .. } => Op::LwSetupRx { ch, dr, continuous: mode == RxM::Continuous, ms: 10 },
                Op::StartRx | Op::CompleteRx { .. } | Op::Rx { .. } | Op::SwitchChannel { .. } => {
                    if lw_guess_rx {
                        Op::LwRxSingle { buf: 256 }
                    } else {
                        Op::LwSetupRx { ch: r.below(7) as u8, dr: r.below(5) as u8, continuous: false, ms: 10 }
                    }
                }
                Op::Sleep { .. } => Op::LwLowPower,
                o => o,
            };
            if let Op::LwSetupRx { continuous, .. } = op {
                lw_guess_rx = true;
                if continuous && r.chance(1, 2) {
                    steps.push(Step::of(op));
                    op = Op::LwRxContinuous { buf: 256 };
                }
            }
        }
        let irqs = gen_irqs(&mut r, &op, cancel_pct);
        let fault = if r.chance(fault_pct, 100) {
            let kind = *r.pick(&[FaultKind::Spi, FaultKind::Spi, FaultKind::Busy, FaultKind::Irq]);
            let at = match kind {
                FaultKind::Irq => r.below(3) as u16,
                _ => {
                    if r.chance(1, 2) {
                        r.below(8) as u16
                    } else {
                        r.below(50) as u16
                    }
                }
            };
            Some(Fault { kind, at })
        } else {
            None
        };
        let gap_us = if gaps { *r.pick(&[0u32, 0, 0, 100, 5_000, 15_000, 25_000, 200_000]) } else { 0 };
        steps.push(Step { op, gap_us, fault, irqs });
    }
    C14Case { chip, board, steps, avoid: vec![] }
}

fn run<RK: RadioKind>(rk: RK, world: WorldRef, case: &C14Case) -> Outcome {
    let mut ex = match Exec::new(rk, world.clone(), case) {
        Ok(ex) => ex,
        Err(v) => {
            let trace = world.borrow_mut().env.trace.take().unwrap_or_default();
            return Outcome { violation: Some(v), stats: RunStats::default(), trace };
        }
    };
    for (i, s) in case.steps.iter().enumerate() {
        if !ex.step(i, s) {
            break;
        }
    }
    if ex.violation.is_none() {
        ex.recovery();
    }
    let (violation, stats, trace) = ex.finish();
    Outcome { violation, stats, trace }
}

pub fn execute_case(case: &C14Case, want_trace: bool) -> Outcome {
    let world = make_world(case.chip, case.board, want_trace);
    with_radio_kind!(case.chip, case.board, world, |rk| run(rk, world.clone(), case))
}

impl Property for C14 {
    type Case = C14Case;
    fn id(&self) -> &'static str {
        "C14"
    }
    fn level(&self) -> &'static str {
        "fault_enumeration"
    }
    fn rule(&self) -> String {
        format!(
            "Runs 0..{} are systematic: {} canonical API scenarios (TX, RX single/continuous/duty-cycle, CAD, listen, sync word, init, warm/cold sleep in front of each, wrong-mode calls, duty-cycle sleep-phase timing, the LoRaWAN adapter's tx/setup_rx/rx_single/rx_continuous/low_power cycle) x 5 chip variants (SX1261, SX1262, STM32WL, SX1272, SX1276) x every step x [an SPI fault at each transaction position 0..56 | a BUSY fault at each wait position 0..56 | an IRQ-line fault at wait 0..2 | 9 IRQ-wait variants: cancel (chip keeps going / completes), spurious wake, preamble+cancel, header error, CRC error, timeout, repeated spurious]. The remaining runs are seeded random scripts of depth 2..12 over the full operation set with swarm-randomised fault/cancellation rates (a quarter of the runs undisturbed), random chip outcomes at every IRQ wait and simulated delays that land in or out of RxDutyCycle sleep phases; a fifth of them talk to the chip only through the LoRaWAN adapter. Every run ends with the bounded-recovery probe. Non-trivial = at least one TX/RX/CAD completed, a call was refused, or a chip-reported failure occurred; distinct = hash of (chip, op kinds, result kinds, events at waits, fault fired, cancelled).",
            systematic_table().len() * 5,
            scenarios().len()
        )
    }
    fn assumptions(&self) -> Vec<String> {
        vec![
            "the chip is a stub (ChipModel126x / ChipModel127x) written from the datasheets; RF, packet timing and GFSK are not modelled; the script decides how and when an operation ends".into(),
            "an SPI fault means: the transaction is not delivered to the chip and the HAL returns an error. A BUSY fault means wait_on_busy returns an error at once; an IRQ fault means await_irq returns an error. 'Delivered but reported as failed' SPI faults are not injected (the driver cannot know the chip state then)".into(),
            "a future can only be pending at await_irq (IRQ line low) or at wait_on_busy of a sleeping SX126x; cancellation = dropping it there".into(),
            "monitor (a) judges 'wrong mode' by a reference mode tracker stepped by the API history while the run is undisturbed, and by the driver's own radio_mode (hook) after a transport fault or cancellation".into(),
            "monitor (c) demands 'programmed since the last reset / cold wake-up' for every item of DESIGN appendix B; the routing of the completion interrupt is only judged in undisturbed runs; listen() (RSSI measurement) is exempt from the packet-engine items".into(),
            "monitor (d) applies to TransmitTimeout, ReceiveTimeout, PayloadSizeMismatch, OpError and the adapter's RxTimeout when no transport fault fired in that call; continuous RX is exempt".into(),
            "after transport faults only monitors (a, by the driver's own mode), (b), (c) and the recovery probe are enforced; recovery tolerates one retry and a re-initialisation".into(),
            "SX126x model: SPI activity during a duty-cycle RX phase keeps the chip awake for 200 us (the inherent status-read/sleep race is not reported)".into(),
            "the LoRaWAN adapter is driven directly through PhyRxTx, not through a MAC".into(),
        ]
    }
    fn components(&self) -> serde_json::Value {
        crate::components_phy()
    }
    fn budget(&self, tier: Tier) -> u64 {
        let sys = systematic_table().len() as u64 * 5 + enum_total(enum_max_depth(tier));
        match tier {
            Tier::Quick => sys + 3_000_000,
            Tier::Thorough => sys + 20_000_000,
        }
    }
    fn coverage_extra(&self, tier: Tier, runs: u64) -> serde_json::Value {
        let sys = systematic_table().len() as u64 * 5;
        let n = runs.saturating_sub(sys).min(enum_total(enum_max_depth(tier)));
        let mut d = 0;
        while d < 8 && enum_total(d + 1) <= n {
            d += 1;
        }
        serde_json::json!({ "bounded_depth_enumeration": {
            "alphabet": "26 API calls with canonical arguments: init, sleep warm / cold, prepare_for_tx, tx, prepare_for_rx single / continuous / duty-cycle, start_rx, complete_rx ending in RxDone / timeout / CRC error / cancellation, rx, rx_switch_channel, listen, prepare_for_cad, cad, set_lora_sync_word, adapter tx / setup_rx single / setup_rx continuous / rx_single done / rx_single timeout / rx_continuous / low_power",
            "configurations": "5 chip variants (Sx1261, Sx1262, Stm32wl, Sx1272, Sx1276), board options rotating",
            "cases_executed": n,
            "complete_to_depth": d,
            "max_depth_of_tier": enum_max_depth(tier),
        }, "single_fault_sweep_cases": sys.min(runs) })
    }
    fn generate(&self, seed: u64, run: u64, tier: Tier, avoid: &BTreeSet<String>) -> C14Case {
        let sys = systematic_table().len() as u64 * 5;
        let mut c = match systematic(run) {
            Some(c) => c,
            None => enumerated(run - sys, enum_max_depth(tier)).unwrap_or_else(|| random_case(seed, run)),
        };
        c.avoid = avoid.iter().cloned().collect();
        c
    }
    fn execute(&self, case: &C14Case, want_trace: bool) -> Outcome {
        execute_case(case, want_trace)
    }
    fn self_test(&self) -> Result<(), String> {
        self_test()
    }
    fn expected_probes(&self, _tier: Tier) -> Vec<&'static str> {
        vec![
            "fault.spi",
            "fault.busy",
            "fault.irq",
            "fault.spurious-irq",
            "fault.cancel-at-irq-wait",
            "probe.duty-cycle-sleep-phase-hit",
            "probe.duty-cycle-rx-phase-hit",
            "probe.wake-up-from-sleep",
            "probe.chip-config-lost-cold-sleep",
            "probe.chip-cold-starts",
            "probe.cold-sleep-entered",
            "probe.wrong-mode-call",
            "probe.refused",
            "probe.chip-reported-failure",
            "probe.tx-completed",
            "probe.rx-completed",
            "probe.cad-completed",
            "probe.call-hit-by-transport-fault",
            "probe.recovered-at-once",
        ]
    }
}

/// Harness self-test. Judges only the harness (chip models, determinism), never the device under test: a broken
/// driver must surface as a VIOLATION of the batch, not as a harness error.
pub fn self_test() -> Result<(), String> {
    use crate::chip126x::*;
    install_quiet_panic_hook();
    // --- ChipModel126x, driven directly over its transaction interface ---
    let w = make_world(ChipKind::Sx1262, Board::default(), false);
    {
        let mut w = w.borrow_mut();
        let w = &mut *w;
        let Chip::C126(c) = &mut w.chip else { return Err("wrong chip".into()) };
        let env = &mut w.env;
        c.transaction(env, &[0x8A, 0x01], 0); // SetPacketType LoRa
        c.transaction(env, &[0x0E, 0xFE, 1, 2, 3, 4], 0); // WriteBuffer at 254: wraps
        let r = c.transaction(env, &[0x1E, 0xFE, 0x00], 4);
        if r != vec![1, 2, 3, 4] || c.buf[0] != 3 {
            return Err(format!("126x data buffer does not wrap at 256: {r:?}"));
        }
        if c.valid & V_PKT_TYPE == 0 || c.valid & V_PAYLOAD == 0 {
            return Err("126x validity bits not set".into());
        }
        c.transaction(env, &[0x84, 0x04], 0); // warm sleep
        if c.valid & V_PKT_TYPE == 0 || c.asleep(env.now_us).is_none() || c.busy_until(env).is_some() {
            return Err("126x warm sleep: configuration must survive, BUSY must be high".into());
        }
        c.transaction(env, &[0xC0, 0x00], 0); // wake-up
        if !env.alerts.is_empty() || c.mode != Mode::StdbyRc {
            return Err("126x GetStatus wake-up misjudged".into());
        }
        env.now_us += 1000;
        c.transaction(env, &[0x84, 0x00], 0); // cold sleep
        if c.valid != 0 {
            return Err("126x cold sleep must clear the configuration".into());
        }
        c.transaction(env, &[0x80, 0x00], 0); // SetStandby to a sleeping chip: monitor (b)
        if env.alerts.len() != 1 || env.alerts[0].invariant != "C14.commanded-while-asleep" {
            return Err("126x monitor (b) did not fire on a command to a sleeping chip".into());
        }
        env.alerts.clear();
        env.now_us += 10_000;
        c.transaction(env, &[0x83, 0, 0, 0], 0); // SetTx on an unconfigured chip: monitor (c)
        if env.alerts.first().map(|a| a.invariant) != Some("C14.started-unconfigured") {
            return Err("126x monitor (c) did not fire on SetTx after a cold start".into());
        }
        env.alerts.clear();
        // duty cycle: RX 10 ms, sleep 20 ms
        c.valid = u32::MAX;
        env.now_us += 1000;
        c.transaction(env, &[0x8A, 0x01], 0);
        c.transaction(env, &[0x08, 0xFF, 0xFF, 0xFF, 0xFF, 0, 0, 0, 0], 0);
        c.transaction(env, &[0x94, 0, 0x02, 0x80, 0, 0x05, 0x00], 0);
        let t0 = env.now_us;
        if c.asleep(t0 + 5_000).is_some() || c.asleep(t0 + 15_000).is_none() || c.asleep(t0 + 31_500).is_some() {
            return Err("126x duty-cycle phases misplaced".into());
        }
    }
    // --- ChipModel127x ---
    let w = make_world(ChipKind::Sx1276, Board::default(), false);
    {
        let mut w = w.borrow_mut();
        let w = &mut *w;
        let Chip::C127(c) = &mut w.chip else { return Err("wrong chip".into()) };
        let env = &mut w.env;
        c.transaction(env, &[0x81, 0x81], 0); // LoRa + standby written in FSK standby: LongRangeMode must be ignored
        if c.lora() {
            return Err("127x LongRangeMode changed outside sleep".into());
        }
        c.transaction(env, &[0x81, 0x80], 0);
        c.transaction(env, &[0x81, 0x81], 0);
        if !c.lora() || !c.in_standby() {
            return Err("127x LoRa standby not reached".into());
        }
        c.transaction(env, &[0x8D, 0xFE], 0);
        c.transaction(env, &[0x80, 9, 8, 7], 0); // FIFO burst across 255 -> 0
        c.transaction(env, &[0x8D, 0xFE], 0);
        let r = c.transaction(env, &[0x00], 3);
        if r != vec![9, 8, 7] {
            return Err(format!("127x FIFO pointer does not wrap: {r:?}"));
        }
        c.transaction(env, &[0x92, 0xFF], 0);
        c.transaction(env, &[0x81, 0x80], 0); // sleep
        c.transaction(env, &[0x80, 1], 0); // FIFO write in sleep: monitor (b)
        if env.alerts.first().map(|a| a.invariant) != Some("C14.commanded-while-asleep") {
            return Err("127x monitor (b) did not fire on FIFO access in sleep".into());
        }
    }
    // --- determinism of whole runs (the verdict of the run itself is not judged here) ---
    for chip in ALL_CHIPS {
        let steps = vec![Step::of(Op::Sleep { warm: false }), Step::of(prep_tx()), Step::of(Op::Tx), Step::of(prep_rx(DUTY)), Step::with(Op::Rx { buf: 64 }, vec![Irq::Preamble, done(12)])];
        let c = C14Case { chip, board: Board { tcxo: true, dcdc: true, rx_boost: false, tx_boost: false }, steps, avoid: vec![] };
        let a = guarded_execute(&C14, &c, true)?;
        let b = guarded_execute(&C14, &c, true)?;
        if a.trace != b.trace || a.stats.shape != b.stats.shape || a.stats.counters != b.stats.counters {
            return Err(format!("C14 self-test: two executions of one case differ on {chip:?}"));
        }
    }
    Ok(())
}
