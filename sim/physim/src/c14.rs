//! C14 (stub, being written)
use simcore::*;
pub struct C14;
pub fn self_test() -> Result<(), String> { Ok(()) }
#[derive(Clone, serde::Serialize, serde::Deserialize)]
pub struct C14Case {}
impl simcore::shrink::Shrinkable for C14Case {
    fn parts(&self) -> usize { 0 }
    fn without(&self, _: usize, _: usize) -> Self { self.clone() }
    fn simplifications(&self) -> Vec<Self> { vec![] }
}
impl Property for C14 {
    type Case = C14Case;
    fn id(&self) -> &'static str { "C14" }
    fn level(&self) -> &'static str { "fault_enumeration" }
    fn rule(&self) -> String { String::new() }
    fn assumptions(&self) -> Vec<String> { vec![] }
    fn components(&self) -> serde_json::Value { crate::components_phy() }
    fn budget(&self, _t: Tier) -> u64 { 0 }
    fn generate(&self, _s: u64, _r: u64, _t: Tier, _a: &std::collections::BTreeSet<String>) -> C14Case { C14Case {} }
    fn execute(&self, _c: &C14Case, _w: bool) -> Outcome { Outcome { violation: None, stats: RunStats::default(), trace: vec![] } }
}
