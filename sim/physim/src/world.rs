//! The simulated PHY world: one shared object (clock + chip model + fault plan + call log) and the
//! three seams the real lora-phy code is built on: `SimSpi` (SpiDevice), `SimIv` (InterfaceVariant:
//! reset / busy / irq / rf switch) and `SimDelay` (DelayNs).
//!
//! Nothing here ever returns `Pending` except (a) `await_irq` with the IRQ line low and (b)
//! `wait_on_busy` on a chip whose BUSY line is stuck high because it sleeps. Those two are the only
//! places where the harness can cancel (drop) a future, i.e. the "droppable waits" of C14.

use crate::chip126x::Chip126x;
use crate::chip127x::Chip127x;
use embedded_hal::spi::{ErrorKind, Operation};
use embedded_hal_async::delay::DelayNs;
use embedded_hal_async::spi::SpiDevice;
use lora_phy::mod_params::RadioError;
use lora_phy::mod_traits::InterfaceVariant;
use serde::{Deserialize, Serialize};
use std::cell::RefCell;
use std::collections::BTreeMap;
use std::future::poll_fn;
use std::rc::Rc;
use std::task::Poll;

pub type WorldRef = Rc<RefCell<World>>;

#[derive(Clone, Copy, Debug, PartialEq, Eq, Serialize, Deserialize, PartialOrd, Ord)]
pub enum FaultKind {
    /// SPI transaction `at` of the call fails; the chip never sees it (bus error before NSS)
    Spi,
    /// SPI transaction `at` of the call is clocked through the chip (with its side effects, such as the FIFO pointer
    /// of an SX127x advancing) and then reported to the driver as failed; the bytes read are lost
    SpiLate,
    /// `wait_on_busy` number `at` of the call returns Err(Busy) immediately
    Busy,
    /// `await_irq` number `at` of the call returns Err(Irq)
    Irq,
}

#[derive(Clone, Copy, Debug, PartialEq, Eq, Serialize, Deserialize)]
pub struct Fault {
    pub kind: FaultKind,
    pub at: u16,
}

/// What the chip models report to the monitors (first alert of a run wins).
#[derive(Clone, Debug)]
pub struct Alert {
    pub invariant: &'static str,
    pub detail: String,
    pub message: String,
}

#[derive(Clone, Copy, Debug, PartialEq, Eq)]
pub enum Pend {
    Irq,
    /// BUSY stuck high (chip asleep): nothing but NSS or reset will ever release it
    BusyStuck,
}

/// Everything the chip models need from their surroundings.
pub struct Env {
    pub now_us: u64,
    /// name of the API call in progress (for alert details)
    pub cur_op: &'static str,
    /// `listen()` in progress or the last receive start came from it: RSSI measurement, not a packet reception
    pub rssi_only: bool,
    /// no transport fault fired and no future was dropped so far in this run
    pub clean: bool,
    pub alerts: Vec<Alert>,
    pub counters: BTreeMap<&'static str, u64>,
    pub trace: Option<Vec<String>>,
}

impl Env {
    pub fn bump(&mut self, k: &'static str) {
        *self.counters.entry(k).or_insert(0) += 1;
    }
    pub fn alert(&mut self, invariant: &'static str, detail: String, message: String) {
        self.tr(|| format!("ALERT {invariant} {detail}: {message}"));
        self.alerts.push(Alert { invariant, detail, message });
    }
    pub fn tr(&mut self, f: impl FnOnce() -> String) {
        if let Some(t) = &mut self.trace {
            let s = f();
            t.push(format!("[{:>9}us] {s}", self.now_us));
        }
    }
}

/// What the chip is programmed with at the moment a transmission or reception starts (decoded from the
/// commands / registers the driver wrote; used by the full-stack configuration of the MAC world).
#[derive(Clone, Copy, Debug, PartialEq, Eq)]
pub struct ChipRf {
    pub freq_hz: u32,
    pub sf: u8,
    pub bw_khz: u16,
    /// coding rate denominator (5 = 4/5)
    pub cr: u8,
    pub iq_inverted: bool,
    pub crc_on: bool,
    pub preamble: u16,
    /// conducted output power selected by the PA settings, when the combination is one the datasheet tabulates
    pub power_dbm: Option<i16>,
    /// LoRa sync word as the chip holds it (SX126x: the 16-bit register pair; SX127x: RegSyncWord in the low byte)
    pub sync: u16,
}

impl ChipRf {
    pub fn short(&self) -> String {
        format!("{}Hz SF{}/BW{} CR4/{}{}", self.freq_hz, self.sf, self.bw_khz, self.cr, match self.power_dbm {
            Some(p) => format!(" {p}dBm"),
            None => String::new(),
        })
    }
}

pub enum Chip {
    C126(Box<Chip126x>),
    C127(Box<Chip127x>),
}

#[derive(Default, Clone, Copy, Debug)]
pub struct CallLog {
    pub spi: u16,
    pub busy: u16,
    pub irq: u16,
    /// reset / rf switch / delay calls
    pub other: u16,
    pub fault_fired: bool,
    /// first byte of the SPI transaction the injected fault hit (None: none, or a fault of another kind)
    pub fault_cmd: Option<u8>,
}
impl CallLog {
    pub fn touched(&self) -> bool {
        self.spi + self.busy + self.irq + self.other > 0
    }
}

pub struct World {
    pub env: Env,
    pub chip: Chip,
    /// fault armed for the API call in progress
    pub fault: Option<Fault>,
    pub call: CallLog,
    /// the next `await_irq` poll completes although no flag is set (line glitch)
    pub spurious: bool,
    pub pend: Option<Pend>,
    /// SPI transactions + waits in the call in progress (livelock budget)
    pub budget: u32,
}

impl World {
    pub fn new(chip: Chip, want_trace: bool) -> WorldRef {
        Rc::new(RefCell::new(World {
            env: Env { now_us: 0, cur_op: "new", rssi_only: false, clean: true, alerts: vec![], counters: BTreeMap::new(), trace: if want_trace { Some(vec![]) } else { None } },
            chip,
            fault: None,
            call: CallLog::default(),
            spurious: false,
            pend: None,
            budget: 0,
        }))
    }

    pub fn begin_call(&mut self, op: &'static str, fault: Option<Fault>) {
        self.env.cur_op = op;
        self.fault = fault;
        self.call = CallLog::default();
        self.spurious = false;
        self.pend = None;
        self.budget = 0;
    }

    fn fault_hits(&mut self, kind: FaultKind, idx: u16) -> bool {
        if let Some(f) = self.fault {
            if f.kind == kind && f.at == idx {
                self.fault = None;
                self.call.fault_fired = true;
                self.env.clean = false;
                self.env.bump(match kind {
                    FaultKind::Spi => "fault.spi",
                    FaultKind::SpiLate => "fault.spi-after-delivery",
                    FaultKind::Busy => "fault.busy",
                    FaultKind::Irq => "fault.irq",
                });
                return true;
            }
        }
        false
    }

    pub fn irq_line(&mut self) -> bool {
        match &mut self.chip {
            Chip::C126(c) => c.irq_line(&mut self.env),
            Chip::C127(c) => c.irq_line(),
        }
    }

    fn spend(&mut self) {
        self.budget += 1;
        if self.budget > 20_000 {
            // unwinds through the device code; recognised by the harness as a livelock
            panic!("SIM-LIVELOCK: more than 20000 bus operations in one API call");
        }
    }

    fn spi_transaction(&mut self, ops: &mut [Operation<'_, u8>]) -> Result<(), ErrorKind> {
        self.spend();
        let idx = self.call.spi;
        self.call.spi += 1;
        let mut cmd: Vec<u8> = Vec::new();
        let mut nread = 0usize;
        for op in ops.iter() {
            match op {
                Operation::Write(b) => cmd.extend_from_slice(b),
                Operation::Read(b) => nread += b.len(),
                Operation::Transfer(r, w) => {
                    cmd.extend_from_slice(w);
                    nread += r.len().saturating_sub(w.len());
                }
                Operation::TransferInPlace(b) => cmd.extend_from_slice(b),
                Operation::DelayNs(_) => {}
            }
        }
        if self.fault_hits(FaultKind::Spi, idx) {
            self.call.fault_cmd = cmd.first().copied();
            self.env.tr(|| format!("spi#{idx} {} -> FAULT (not delivered)", hex(&cmd)));
            return Err(ErrorKind::Other);
        }
        let resp = match &mut self.chip {
            Chip::C126(c) => c.transaction(&mut self.env, &cmd, nread),
            Chip::C127(c) => c.transaction(&mut self.env, &cmd, nread),
        };
        if self.fault_hits(FaultKind::SpiLate, idx) {
            self.call.fault_cmd = cmd.first().copied();
            self.env.tr(|| format!("spi#{idx} {} -> FAULT (delivered to the chip, reported as failed)", hex(&cmd)));
            return Err(ErrorKind::Other);
        }
        self.env.tr(|| format!("spi#{idx} {} -> {}", hex(&cmd), hex(&resp)));
        // ~1 us per byte on the wire
        self.env.now_us += (cmd.len() + nread) as u64;
        let mut it = resp.into_iter();
        for op in ops.iter_mut() {
            match op {
                Operation::Read(b) => {
                    for x in b.iter_mut() {
                        *x = it.next().unwrap_or(0);
                    }
                }
                Operation::Transfer(r, _) | Operation::TransferInPlace(r) => {
                    for x in r.iter_mut() {
                        *x = 0;
                    }
                }
                _ => {}
            }
        }
        Ok(())
    }
}

pub fn hex(b: &[u8]) -> String {
    let mut s = String::with_capacity(b.len() * 2);
    for x in b {
        s.push_str(&format!("{x:02x}"));
    }
    s
}

// ---------------------------------------------------------------------------------------------

pub struct SimSpi(pub WorldRef);

impl embedded_hal::spi::ErrorType for SimSpi {
    type Error = ErrorKind;
}

impl SpiDevice<u8> for SimSpi {
    async fn transaction(&mut self, operations: &mut [Operation<'_, u8>]) -> Result<(), Self::Error> {
        self.0.borrow_mut().spi_transaction(operations)
    }
}

pub struct SimIv(pub WorldRef);

impl InterfaceVariant for SimIv {
    async fn reset(&mut self, _delay: &mut impl DelayNs) -> Result<(), RadioError> {
        let mut w = self.0.borrow_mut();
        let w = &mut *w;
        w.call.other += 1;
        // NRESET low for >100 us, then the chip needs a few ms (datasheets: 126x ~3.5 ms incl. calibration, 127x 5 ms)
        w.env.now_us += 20_000;
        match &mut w.chip {
            Chip::C126(c) => c.reset(&mut w.env),
            Chip::C127(c) => c.reset(&mut w.env),
        }
        Ok(())
    }

    async fn wait_on_busy(&mut self) -> Result<(), RadioError> {
        let world = self.0.clone();
        let mut idx: Option<u16> = None;
        poll_fn(move |_cx| {
            let mut w = world.borrow_mut();
            let w = &mut *w;
            w.spend();
            let i = *idx.get_or_insert_with(|| {
                let i = w.call.busy;
                w.call.busy += 1;
                i
            });
            // The SX127x has no BUSY line, but the driver still calls the board's `wait_on_busy` after every
            // register access, and a board implementation of `InterfaceVariant` may fail there (a shared
            // bus-arbitration line, a timeout wrapper): the fault is injected on both families.
            if w.fault.map(|f| f.kind == FaultKind::Busy && f.at == i).unwrap_or(false) {
                w.fault = None;
                w.call.fault_fired = true;
                w.env.clean = false;
                w.env.bump("fault.busy");
                w.env.tr(|| format!("busy#{i} -> FAULT"));
                return Poll::Ready(Err(RadioError::Busy));
            }
            match &mut w.chip {
                Chip::C127(_) => Poll::Ready(Ok(())), // no BUSY line on the SX127x
                Chip::C126(c) => {
                    match c.busy_until(&mut w.env) {
                        Some(t) => {
                            if t > w.env.now_us {
                                w.env.now_us = t;
                            }
                            Poll::Ready(Ok(()))
                        }
                        None => {
                            w.env.tr(|| format!("busy#{i} stuck high (chip asleep)"));
                            w.pend = Some(Pend::BusyStuck);
                            Poll::Pending
                        }
                    }
                }
            }
        })
        .await
    }

    async fn await_irq(&mut self) -> Result<(), RadioError> {
        let world = self.0.clone();
        let mut idx: Option<u16> = None;
        poll_fn(move |_cx| {
            let mut w = world.borrow_mut();
            let w = &mut *w;
            w.spend();
            let i = *idx.get_or_insert_with(|| {
                let i = w.call.irq;
                w.call.irq += 1;
                i
            });
            if w.fault_hits(FaultKind::Irq, i) {
                w.env.tr(|| format!("irq#{i} -> FAULT"));
                return Poll::Ready(Err(RadioError::Irq));
            }
            if w.spurious {
                w.spurious = false;
                w.env.bump("fault.spurious-irq");
                w.env.tr(|| format!("irq#{i} -> spurious wake (no flag)"));
                return Poll::Ready(Ok(()));
            }
            if w.irq_line() {
                w.env.tr(|| format!("irq#{i} -> line high"));
                Poll::Ready(Ok(()))
            } else {
                w.pend = Some(Pend::Irq);
                Poll::Pending
            }
        })
        .await
    }

    async fn enable_rf_switch_rx(&mut self) -> Result<(), RadioError> {
        self.0.borrow_mut().call.other += 1;
        Ok(())
    }
    async fn enable_rf_switch_tx(&mut self) -> Result<(), RadioError> {
        self.0.borrow_mut().call.other += 1;
        Ok(())
    }
    async fn disable_rf_switch(&mut self) -> Result<(), RadioError> {
        self.0.borrow_mut().call.other += 1;
        Ok(())
    }
}

pub struct SimDelay(pub WorldRef);

impl DelayNs for SimDelay {
    async fn delay_ns(&mut self, ns: u32) {
        let mut w = self.0.borrow_mut();
        w.call.other += 1;
        w.env.now_us += (ns as u64).div_ceil(1000);
    }
}
