//! physim — deterministic simulation with fault injection for the lora-phy drivers (C14, C18).
//! See /verif/DESIGN.md (sections 3, 4 "Chip models", 6 C14/C18, appendix B).

pub mod c14;
pub mod c18;
pub mod chip126x;
pub mod chip127x;
pub mod exec14;
pub mod rig;
pub mod script;
pub mod world;


pub fn components_phy() -> serde_json::Value {
    serde_json::json!({
        "real": [
            "lora_phy::LoRa (mode-tracking layer)", "lora_phy::sx126x::Sx126x (Sx1261, Sx1262, Stm32wl variants)",
            "lora_phy::sx127x::Sx127x (Sx1272, Sx1276 variants)", "lora_phy::lorawan_radio::LorawanRadio (PhyRxTx adapter)",
            "lora_phy::interface::SpiInterface"
        ],
        "stub": [
            "radio chip (ChipModel126x / ChipModel127x: register file, mode machine incl. RxDutyCycle sleep phases, IRQ flag/mask logic, data buffer wrapping at 256, configuration-validity bits, BUSY timing, lying mode)",
            "SPI bus (SimSpi: SpiDevice<u8>, fault = transaction not delivered + error)", "BUSY / IRQ / reset lines and RF switch (SimIv: InterfaceVariant)",
            "delay and clock (SimDelay: DelayNs over the simulated microsecond clock)", "application / MAC above the adapter (the script calls PhyRxTx directly)"
        ]
    })
}

