//! `ChipModel126x` — behavioural stub of an SX1261/SX1262 (also the STM32WL sub-GHz radio), written
//! from the datasheet (DS.SX1261-2 rev 2.x), sharing no code with /repo.
//!
//! Modelled: command decode, register file, 256-byte data buffer (wraps at 256), operating modes
//! (sleep cold/warm, STDBY_RC/XOSC, FS, TX, RX single/timed/continuous/duty-cycle with clocked
//! sleep phases, CAD), IRQ status / IRQ mask / DIO1 mask, BUSY timing, what survives warm sleep,
//! cold sleep and reset ("configuration-validity bits"), and a lying mode for C18.
//! Not modelled: RF, GFSK, real timing of packets (the harness decides when and how an operation ends).

use crate::world::{ChipRf, Env};

// opcodes (datasheet table 11-1 .. 11-5)
pub const OP_GET_STATUS: u8 = 0xC0;
const OP_WRITE_REG: u8 = 0x0D;
const OP_READ_REG: u8 = 0x1D;
const OP_WRITE_BUF: u8 = 0x0E;
const OP_READ_BUF: u8 = 0x1E;
const OP_SET_SLEEP: u8 = 0x84;
const OP_SET_STANDBY: u8 = 0x80;
const OP_SET_FS: u8 = 0xC1;
const OP_SET_TX: u8 = 0x83;
const OP_SET_RX: u8 = 0x82;
const OP_SET_RX_DUTY: u8 = 0x94;
const OP_SET_CAD: u8 = 0xC5;
const OP_SET_TX_CW: u8 = 0xD1;
const OP_SET_PKT_TYPE: u8 = 0x8A;
const OP_SET_RF_FREQ: u8 = 0x86;
const OP_SET_TX_PARAMS: u8 = 0x8E;
const OP_SET_PA_CONFIG: u8 = 0x95;
const OP_SET_CAD_PARAMS: u8 = 0x88;
const OP_SET_BUF_BASE: u8 = 0x8F;
const OP_SET_MOD_PARAMS: u8 = 0x8B;
const OP_SET_PKT_PARAMS: u8 = 0x8C;
const OP_GET_RX_BUF_STATUS: u8 = 0x13;
const OP_GET_PKT_STATUS: u8 = 0x14;
const OP_GET_RSSI_INST: u8 = 0x15;
const OP_CFG_DIO_IRQ: u8 = 0x08;
const OP_GET_IRQ_STATUS: u8 = 0x12;
const OP_CLR_IRQ_STATUS: u8 = 0x02;
const OP_CALIBRATE: u8 = 0x89;
const OP_CALIBRATE_IMAGE: u8 = 0x98;
const OP_SET_REGULATOR: u8 = 0x96;
const OP_GET_DEV_ERRORS: u8 = 0x17;
const OP_CLR_DEV_ERRORS: u8 = 0x07;
const OP_SET_TCXO: u8 = 0x97;
const OP_SET_DIO2_RFSW: u8 = 0x9D;
const OP_STOP_TIMER_ON_PREAMBLE: u8 = 0x9F;
const OP_SET_SYMB_TIMEOUT: u8 = 0xA0;

pub fn opname(op: u8) -> &'static str {
    match op {
        OP_GET_STATUS => "GetStatus",
        OP_WRITE_REG => "WriteRegister",
        OP_READ_REG => "ReadRegister",
        OP_WRITE_BUF => "WriteBuffer",
        OP_READ_BUF => "ReadBuffer",
        OP_SET_SLEEP => "SetSleep",
        OP_SET_STANDBY => "SetStandby",
        OP_SET_FS => "SetFs",
        OP_SET_TX => "SetTx",
        OP_SET_RX => "SetRx",
        OP_SET_RX_DUTY => "SetRxDutyCycle",
        OP_SET_CAD => "SetCad",
        OP_SET_TX_CW => "SetTxContinuousWave",
        OP_SET_PKT_TYPE => "SetPacketType",
        OP_SET_RF_FREQ => "SetRfFrequency",
        OP_SET_TX_PARAMS => "SetTxParams",
        OP_SET_PA_CONFIG => "SetPaConfig",
        OP_SET_CAD_PARAMS => "SetCadParams",
        OP_SET_BUF_BASE => "SetBufferBaseAddress",
        OP_SET_MOD_PARAMS => "SetModulationParams",
        OP_SET_PKT_PARAMS => "SetPacketParams",
        OP_GET_RX_BUF_STATUS => "GetRxBufferStatus",
        OP_GET_PKT_STATUS => "GetPacketStatus",
        OP_GET_RSSI_INST => "GetRssiInst",
        OP_CFG_DIO_IRQ => "SetDioIrqParams",
        OP_GET_IRQ_STATUS => "GetIrqStatus",
        OP_CLR_IRQ_STATUS => "ClearIrqStatus",
        OP_CALIBRATE => "Calibrate",
        OP_CALIBRATE_IMAGE => "CalibrateImage",
        OP_SET_REGULATOR => "SetRegulatorMode",
        OP_GET_DEV_ERRORS => "GetDeviceErrors",
        OP_CLR_DEV_ERRORS => "ClearDeviceErrors",
        OP_SET_TCXO => "SetDIO3AsTcxoCtrl",
        OP_SET_DIO2_RFSW => "SetDIO2AsRfSwitchCtrl",
        OP_STOP_TIMER_ON_PREAMBLE => "StopTimerOnPreamble",
        OP_SET_SYMB_TIMEOUT => "SetLoRaSymbNumTimeout",
        _ => "unknown",
    }
}

// IRQ bits (datasheet table 13-29)
pub const IRQ_TX_DONE: u16 = 1 << 0;
pub const IRQ_RX_DONE: u16 = 1 << 1;
pub const IRQ_PREAMBLE: u16 = 1 << 2;
pub const IRQ_SYNC: u16 = 1 << 3;
pub const IRQ_HEADER_VALID: u16 = 1 << 4;
pub const IRQ_HEADER_ERR: u16 = 1 << 5;
pub const IRQ_CRC_ERR: u16 = 1 << 6;
pub const IRQ_CAD_DONE: u16 = 1 << 7;
pub const IRQ_CAD_DETECTED: u16 = 1 << 8;
pub const IRQ_TIMEOUT: u16 = 1 << 9;

// configuration-validity bits: "programmed since the last power-on / reset / cold wake-up" (DESIGN appendix B)
pub const V_PKT_TYPE: u32 = 1 << 0;
pub const V_SYNC: u32 = 1 << 1;
pub const V_BUF_BASE: u32 = 1 << 2;
pub const V_MOD: u32 = 1 << 3;
pub const V_PKT: u32 = 1 << 4;
pub const V_FREQ: u32 = 1 << 5;
pub const V_PA: u32 = 1 << 6;
pub const V_TX_PARAMS: u32 = 1 << 7;
pub const V_DIO_IRQ: u32 = 1 << 8;
pub const V_PAYLOAD: u32 = 1 << 9;
pub const V_REGULATOR: u32 = 1 << 10;
pub const V_DIO2: u32 = 1 << 11;
pub const V_TCXO: u32 = 1 << 12;
pub const V_CALIB: u32 = 1 << 13;
pub const V_CAD_PARAMS: u32 = 1 << 14;

const V_NAMES: [(u32, &str); 15] = [
    (V_PKT_TYPE, "packet-type"),
    (V_SYNC, "sync-word"),
    (V_BUF_BASE, "buffer-base"),
    (V_MOD, "modulation"),
    (V_PKT, "packet-params"),
    (V_FREQ, "frequency"),
    (V_PA, "pa-config"),
    (V_TX_PARAMS, "tx-params"),
    (V_DIO_IRQ, "irq-params"),
    (V_PAYLOAD, "payload"),
    (V_REGULATOR, "regulator"),
    (V_DIO2, "dio2-rf-switch"),
    (V_TCXO, "tcxo"),
    (V_CALIB, "calibration"),
    (V_CAD_PARAMS, "cad-params"),
];

pub fn valid_names(bits: u32) -> String {
    V_NAMES.iter().filter(|(b, _)| bits & b != 0).map(|(_, n)| *n).collect::<Vec<_>>().join("+")
}

#[derive(Clone, Copy, Debug, PartialEq, Eq)]
pub enum RxKind {
    /// SetRx(0): until a packet or the symbol timeout
    Single,
    /// SetRx(t)
    Timed,
    /// SetRx(0xFFFFFF)
    Continuous,
    /// SetRxDutyCycle: RX for `rx_us`, sleep for `sleep_us`, repeat (datasheet 13.1.6)
    Duty { t0: u64, rx_us: u64, sleep_us: u64, hold_until: u64 },
}

#[derive(Clone, Copy, Debug, PartialEq, Eq)]
pub enum Mode {
    SleepCold,
    SleepWarm,
    StdbyRc,
    StdbyXosc,
    Fs,
    Tx,
    Rx(RxKind),
    Cad,
}

/// What the board configuration (the driver's `Config`) obliges the driver to programme after a cold start.
#[derive(Clone, Copy, Debug, Default)]
pub struct Board126 {
    pub dcdc: bool,
    pub dio2_rf_switch: bool,
    pub tcxo: bool,
}

/// C18 lying mode: what the chip reports after RxDone, regardless of what it received.
#[derive(Clone, Copy, Debug)]
pub struct Lie {
    pub len: u8,
    pub offset: u8,
    /// status byte returned with GetRxBufferStatus / GetPacketStatus
    pub status_buf: u8,
    pub status_pkt: u8,
    pub rssi: u8,
    pub snr: u8,
    pub sig_rssi: u8,
}

#[derive(Clone, Debug, PartialEq, Eq)]
pub struct TxRecord {
    pub freq_raw: u32,
    pub payload: Vec<u8>,
}

#[derive(Clone, Copy, Debug, PartialEq, Eq)]
pub enum Outcome {
    /// TxDone / RxDone with a good packet / CadDone
    Done,
    Timeout,
    CrcError,
    HeaderError,
    Preamble,
    /// a false preamble (or a valid header) followed by the symbol timeout before the host has read the status:
    /// both flags are latched when the host looks
    PreambleTimeout,
}

const WAKE_COLD_US: u64 = 3_500; // datasheet table 8-2: sleep (cold) -> STDBY_RC 3.5 ms
const WAKE_WARM_US: u64 = 340; // sleep (warm) -> STDBY_RC 340 us
const DUTY_OVERHEAD_US: u64 = 1_000; // context save + wake-up around each duty-cycle sleep

pub struct Chip126x {
    pub board: Board126,
    pub mode: Mode,
    regs: Vec<u8>,
    pub buf: [u8; 256],
    busy_until: u64,
    /// the BUSY window in progress is a wake-up: commands clocked in during it are lost
    waking: bool,
    pub irq_status: u16,
    pub irq_mask: u16,
    pub dio1_mask: u16,
    pub valid: u32,
    pkt_type: u8,
    tx_base: u8,
    rx_base: u8,
    pub payload_len: u8,
    pub freq_raw: u32,
    rx_len: u8,
    rx_start: u8,
    pkt_status: [u8; 3],
    /// command status, bits 3:1 of the status byte (2 data available, 3 timeout, 6 tx done)
    cmd_status: u8,
    pub lie: Option<Lie>,
    pub tx_log: Vec<TxRecord>,
    /// number of cold wake-ups / resets seen (evidence)
    pub cold_starts: u32,
    /// last SetModulationParams (sf, bw code, cr code, ldro), SetPacketParams (6 bytes), SetTxParams power, SetPaConfig
    mod_params: [u8; 4],
    pkt_params: [u8; 6],
    tx_power: u8,
    pa_config: [u8; 4],
    /// what the chip was programmed with at each SetTx / SetRx (full-stack configuration of the MAC world)
    pub tx_rf_log: Vec<(ChipRf, Vec<u8>)>,
    pub rx_rf_log: Vec<ChipRf>,
}

impl Chip126x {
    pub fn new(board: Board126) -> Self {
        let mut c = Chip126x {
            board,
            mode: Mode::StdbyRc,
            regs: vec![0; 0x1000],
            buf: [0; 256],
            busy_until: 0,
            waking: false,
            irq_status: 0,
            irq_mask: 0,
            dio1_mask: 0,
            valid: 0,
            pkt_type: 0,
            tx_base: 0,
            rx_base: 0,
            payload_len: 0,
            freq_raw: 0,
            rx_len: 0,
            rx_start: 0,
            pkt_status: [0; 3],
            cmd_status: 1,
            lie: None,
            tx_log: vec![],
            cold_starts: 0,
            mod_params: [0; 4],
            pkt_params: [0; 6],
            tx_power: 0,
            pa_config: [0; 4],
            tx_rf_log: vec![],
            rx_rf_log: vec![],
        };
        c.power_on_defaults();
        c
    }

    /// Everything a POR / NRESET / cold wake-up loses (datasheet 9.3: only warm start retains the configuration).
    fn power_on_defaults(&mut self) {
        for r in self.regs.iter_mut() {
            *r = 0;
        }
        // reset values the driver reads-modifies-writes
        self.regs[0x0740] = 0x14; // LoRa sync word: private network
        self.regs[0x0741] = 0x24;
        self.regs[0x08AC] = 0x94; // Rx gain: power saving
        self.regs[0x0889] = 0x04; // TxModulation
        self.regs[0x08D8] = 0xC8; // TxClampConfig
        self.regs[0x0736] = 0x0D; // IQ polarity
        self.regs[0x08E7] = 0x18; // OCP
        self.regs[0x0911] = 0x05; // XTA trim
        self.regs[0x0912] = 0x05;
        self.buf = [0; 256];
        self.irq_status = 0;
        self.irq_mask = 0;
        self.dio1_mask = 0;
        self.valid = 0;
        self.pkt_type = 0; // GFSK
        self.tx_base = 0;
        self.rx_base = 0;
        self.payload_len = 0;
        self.freq_raw = 0;
        self.rx_len = 0;
        self.rx_start = 0;
        self.pkt_status = [0; 3];
        self.cmd_status = 1;
        self.mod_params = [0; 4];
        self.pkt_params = [0; 6];
        self.tx_power = 0;
        self.pa_config = [0; 4];
    }

    /// Decode what the chip is programmed with right now (datasheet 13.4.5, 13.4.6, 13.1.14, table 13-21).
    pub fn rf_now(&self) -> ChipRf {
        let bw_khz = match self.mod_params[1] {
            0x04 => 125,
            0x05 => 250,
            0x06 => 500,
            0x03 => 62,
            0x0A => 41,
            0x02 => 31,
            0x09 => 20,
            0x01 => 15,
            0x08 => 10,
            0x00 => 7,
            _ => 0,
        };
        // SetPaConfig (paDutyCycle, hpMax, deviceSel) rows of table 13-21: (max dBm, SetTxParams power at max)
        let row = match (self.pa_config[2], self.pa_config[0], self.pa_config[1]) {
            (1, 0x01, 0x00) => Some((10i16, 13i16)),
            (1, 0x04, 0x00) => Some((14, 14)),
            (1, 0x06, 0x00) => Some((15, 14)),
            (0, 0x02, 0x02) => Some((14, 22)),
            (0, 0x02, 0x03) => Some((17, 22)),
            (0, 0x03, 0x05) => Some((20, 22)),
            (0, 0x04, 0x07) => Some((22, 22)),
            _ => None,
        };
        let p = self.tx_power as i8 as i16;
        ChipRf {
            freq_hz: ((self.freq_raw as u64 * 32_000_000) >> 25) as u32,
            sf: self.mod_params[0],
            bw_khz,
            cr: 4 + self.mod_params[2],
            iq_inverted: self.pkt_params[5] != 0,
            crc_on: self.pkt_params[4] != 0,
            preamble: u16::from_be_bytes([self.pkt_params[0], self.pkt_params[1]]),
            // powers below the row's anchor lower SetTxParams one for one; above it the PA saturates at the row's maximum
            power_dbm: row.map(|(max, at_max)| (max - (at_max - p)).min(max)),
            sync: u16::from_be_bytes([self.regs[0x0740], self.regs[0x0741]]),
        }
    }

    pub fn reset(&mut self, env: &mut Env) {
        self.power_on_defaults();
        self.mode = Mode::StdbyRc;
        self.cold_starts += 1;
        self.busy_until = env.now_us + 1_000;
        self.waking = false;
        env.tr(|| "chip: NRESET -> STDBY_RC, configuration lost".into());
    }

    /// Is the chip unable to take a command at `now` because it sleeps?
    pub fn asleep(&self, now: u64) -> Option<&'static str> {
        match self.mode {
            Mode::SleepCold => Some("cold-sleep"),
            Mode::SleepWarm => Some("warm-sleep"),
            Mode::Rx(RxKind::Duty { t0, rx_us, sleep_us, hold_until }) => {
                if now < hold_until {
                    return None;
                }
                let cycle = rx_us + sleep_us + DUTY_OVERHEAD_US;
                let pos = (now - t0) % cycle.max(1);
                if pos < rx_us {
                    None
                } else {
                    Some("duty-cycle-sleep-phase")
                }
            }
            _ => None,
        }
    }

    /// Time at which BUSY goes low, or None when it is stuck high (sleep: BUSY is high, datasheet 8.3.1).
    pub fn busy_until(&mut self, env: &mut Env) -> Option<u64> {
        if self.asleep(env.now_us).is_some() {
            return None;
        }
        Some(self.busy_until)
    }

    pub fn irq_line(&mut self, _env: &mut Env) -> bool {
        self.irq_status & self.dio1_mask != 0
    }

    pub fn mode_class(&self, now: u64) -> u8 {
        match self.mode {
            Mode::SleepCold => 0,
            Mode::SleepWarm => 1,
            Mode::StdbyRc | Mode::StdbyXosc => 2,
            Mode::Fs => 3,
            Mode::Tx => 4,
            Mode::Rx(RxKind::Single) | Mode::Rx(RxKind::Timed) => 5,
            Mode::Rx(RxKind::Continuous) => 6,
            Mode::Rx(RxKind::Duty { .. }) => {
                if self.asleep(now).is_some() {
                    8
                } else {
                    7
                }
            }
            Mode::Cad => 9,
        }
    }

    pub fn in_standby(&self) -> bool {
        matches!(self.mode, Mode::StdbyRc | Mode::StdbyXosc)
    }

    fn status_byte(&self) -> u8 {
        // bits 6:4 chip mode (2 STBY_RC, 3 STBY_XOSC, 4 FS, 5 RX, 6 TX), bits 3:1 command status
        let m = match self.mode {
            Mode::StdbyRc | Mode::SleepCold | Mode::SleepWarm => 2,
            Mode::StdbyXosc => 3,
            Mode::Fs => 4,
            Mode::Rx(_) | Mode::Cad => 5,
            Mode::Tx => 6,
        };
        (m << 4) | (self.cmd_status << 1)
    }

    fn raise(&mut self, flags: u16) {
        self.irq_status |= flags & self.irq_mask;
    }

    fn board_bits(&self) -> u32 {
        let mut b = 0;
        if self.board.dcdc {
            b |= V_REGULATOR;
        }
        if self.board.dio2_rf_switch {
            b |= V_DIO2;
        }
        if self.board.tcxo {
            b |= V_TCXO | V_CALIB;
        }
        b
    }

    /// Monitor (c): at SetTx / SetRx / SetRxDutyCycle / SetCad every item the operation depends on must have
    /// been programmed since the last power-on / reset / cold wake-up.
    fn check_configured(&mut self, env: &mut Env, what: &'static str, mut need: u32, irq_need: u16) {
        need |= self.board_bits();
        if env.rssi_only && what == "rx" {
            // listen(): instantaneous-RSSI measurement; packet engine parameters are irrelevant to it
            need &= !(V_SYNC | V_BUF_BASE | V_PKT | V_DIO_IRQ);
        }
        let missing = need & !self.valid;
        if missing != 0 {
            env.alert(
                "C14.started-unconfigured",
                format!("sx126x|{}|{what}|{}", env.cur_op, valid_names(missing)),
                format!(
                    "{} started by {}() but not programmed since the last reset/cold start: {} (programmed: {})",
                    what,
                    env.cur_op,
                    valid_names(missing),
                    valid_names(self.valid)
                ),
            );
            return;
        }
        if self.pkt_type != 1 && need & V_PKT_TYPE != 0 {
            env.alert("C14.started-unconfigured", format!("sx126x|{}|{what}|packet-type-not-lora", env.cur_op), format!("{what} started with packet type {} (not LoRa)", self.pkt_type));
            return;
        }
        // routing of the completion interrupt: judged only while no transport fault / cancellation has
        // disturbed the run (the statement asks for "programmed again", not for a particular value)
        if env.clean && !(env.rssi_only && what == "rx") && (self.irq_mask & self.dio1_mask & irq_need) != irq_need {
            env.alert(
                "C14.started-unconfigured",
                format!("sx126x|{}|{what}|irq-routing", env.cur_op),
                format!("{what} started with IRQ mask {:#06x} / DIO1 mask {:#06x}: completion interrupt {:#06x} not routed", self.irq_mask, self.dio1_mask, irq_need),
            );
        }
    }

    fn enter_sleep(&mut self, env: &mut Env, warm: bool) {
        if !self.in_standby() {
            // datasheet 13.1.1: SetSleep is only specified from STDBY; the model lets it through
            env.bump("probe.setsleep-not-from-standby");
        }
        if warm {
            self.mode = Mode::SleepWarm;
        } else {
            self.mode = Mode::SleepCold;
            self.power_on_defaults();
            env.bump("probe.chip-config-lost-cold-sleep");
        }
        // the data buffer is retained in every mode except sleep (datasheet 7.1)
        self.valid &= !V_PAYLOAD;
        self.irq_status = 0;
        env.tr(|| format!("chip: sleep ({})", if warm { "warm, configuration retained" } else { "cold, configuration lost" }));
    }

    /// NSS falling edge while asleep: wake up to STDBY_RC; the bytes clocked in are lost.
    fn wake(&mut self, env: &mut Env, why: &'static str) {
        let cold = self.mode == Mode::SleepCold;
        if cold {
            self.cold_starts += 1;
        }
        self.mode = Mode::StdbyRc;
        self.busy_until = env.now_us + if cold { WAKE_COLD_US } else { WAKE_WARM_US };
        self.waking = true;
        env.tr(|| format!("chip: woken by NSS from {why} -> STDBY_RC, BUSY for {} us", if cold { WAKE_COLD_US } else { WAKE_WARM_US }));
    }

    /// One SPI transaction. `cmd` = all bytes written (opcode first), `nread` = bytes read afterwards.
    pub fn transaction(&mut self, env: &mut Env, cmd: &[u8], nread: usize) -> Vec<u8> {
        let now = env.now_us;
        let op = cmd.first().copied().unwrap_or(0);
        if let Some(why) = self.asleep(now) {
            if why == "duty-cycle-sleep-phase" {
                env.bump("probe.duty-cycle-sleep-phase-hit");
            }
            if op == OP_GET_STATUS || cmd.is_empty() || op == 0x00 {
                env.bump("probe.wake-up-from-sleep");
            } else {
                // monitor (b)
                env.alert(
                    "C14.commanded-while-asleep",
                    format!("sx126x|{why}|{}|{}", env.cur_op, opname(op)),
                    format!("{}() sent {} ({:#04x}) while the chip was in {why} without waking it first; the command is lost", env.cur_op, opname(op), op),
                );
            }
            self.wake(env, why);
            return vec![0; nread];
        }
        if self.waking && now < self.busy_until {
            // still booting after a wake-up: BUSY is high and the command is ignored (only reachable after a BUSY fault)
            env.bump("probe.command-during-wake-busy");
            return vec![0; nread];
        }
        self.waking = false;
        if let Mode::Rx(RxKind::Duty { t0, rx_us, sleep_us, hold_until }) = self.mode {
            env.bump("probe.duty-cycle-rx-phase-hit");
            // Modelling simplification: SPI activity in an RX phase keeps the chip awake for another 200 us, so the
            // inherent hardware race "status read in the RX phase, next command a microsecond into the sleep phase"
            // is never reported as a violation.
            self.mode = Mode::Rx(RxKind::Duty { t0, rx_us, sleep_us, hold_until: hold_until.max(now + 200) });
        }
        let p = &cmd[cmd.len().min(1)..];
        let g = |i: usize| p.get(i).copied().unwrap_or(0);
        let mut busy = 10u64; // generic command processing time
        let mut resp: Vec<u8> = Vec::new();
        let is_get = matches!(op, OP_GET_STATUS | OP_READ_REG | OP_READ_BUF | OP_GET_RX_BUF_STATUS | OP_GET_PKT_STATUS | OP_GET_RSSI_INST | OP_GET_IRQ_STATUS | OP_GET_DEV_ERRORS);
        match op {
            OP_GET_STATUS => resp = vec![self.status_byte()],
            OP_WRITE_REG => {
                let addr = u16::from_be_bytes([g(0), g(1)]) as usize;
                for (i, b) in p.iter().skip(2).enumerate() {
                    let a = (addr + i) & 0xFFF;
                    self.regs[a] = *b;
                    if a == 0x0740 || a == 0x0741 {
                        self.valid |= V_SYNC;
                    }
                }
            }
            OP_READ_REG => {
                // bytes: opcode, addr hi, addr lo, NOP(status), then data
                let addr = u16::from_be_bytes([g(0), g(1)]) as usize;
                let skip = 3usize.saturating_sub(p.len()); // status bytes still to come if the host wrote fewer than 3 parameter bytes
                for i in 0..nread {
                    if i < skip {
                        resp.push(self.status_byte());
                    } else {
                        resp.push(self.regs[(addr + i - skip) & 0xFFF]);
                    }
                }
            }
            OP_WRITE_BUF => {
                let off = g(0);
                for (i, b) in p.iter().skip(1).enumerate() {
                    self.buf[off.wrapping_add(i as u8) as usize] = *b; // the address pointer wraps at 256
                }
                self.valid |= V_PAYLOAD;
            }
            OP_READ_BUF => {
                // bytes: opcode, offset, NOP(status), then data; the pointer wraps around at 256 (datasheet 7.1)
                let off = g(0);
                let skip = 2usize.saturating_sub(p.len());
                for i in 0..nread {
                    if i < skip {
                        resp.push(self.status_byte());
                    } else {
                        let k = i - skip;
                        if (off as usize + k) == 256 {
                            env.bump("probe.chip-buffer-wrap-around-read");
                        }
                        resp.push(self.buf[off.wrapping_add(k as u8) as usize]);
                    }
                }
            }
            OP_SET_SLEEP => {
                let warm = g(0) & 0x04 != 0;
                self.enter_sleep(env, warm);
                busy = 500;
            }
            OP_SET_STANDBY => {
                self.mode = if g(0) & 1 == 1 { Mode::StdbyXosc } else { Mode::StdbyRc };
                busy = 50;
            }
            OP_SET_FS => self.mode = Mode::Fs,
            OP_SET_TX => {
                self.check_configured(env, "tx", V_PKT_TYPE | V_SYNC | V_BUF_BASE | V_MOD | V_PKT | V_FREQ | V_PA | V_TX_PARAMS | V_DIO_IRQ | V_PAYLOAD, IRQ_TX_DONE);
                let payload: Vec<u8> = (0..self.payload_len).map(|i| self.buf[self.tx_base.wrapping_add(i) as usize]).collect();
                self.tx_rf_log.push((self.rf_now(), payload.clone()));
                self.tx_log.push(TxRecord { freq_raw: self.freq_raw, payload });
                self.mode = Mode::Tx;
                busy = 120;
            }
            OP_SET_RX => {
                self.check_configured(env, "rx", V_PKT_TYPE | V_SYNC | V_BUF_BASE | V_MOD | V_PKT | V_FREQ | V_DIO_IRQ, IRQ_RX_DONE | IRQ_TIMEOUT);
                let t = u32::from_be_bytes([0, g(0), g(1), g(2)]);
                self.rx_rf_log.push(self.rf_now());
                self.mode = Mode::Rx(match t {
                    0 => RxKind::Single,
                    0xFF_FFFF => RxKind::Continuous,
                    _ => RxKind::Timed,
                });
                busy = 100;
            }
            OP_SET_RX_DUTY => {
                self.check_configured(env, "rx", V_PKT_TYPE | V_SYNC | V_BUF_BASE | V_MOD | V_PKT | V_FREQ | V_DIO_IRQ, IRQ_RX_DONE);
                let rx = u32::from_be_bytes([0, g(0), g(1), g(2)]) as u64;
                let sl = u32::from_be_bytes([0, g(3), g(4), g(5)]) as u64;
                self.rx_rf_log.push(self.rf_now());
                // periods are in steps of 15.625 us
                self.mode = Mode::Rx(RxKind::Duty { t0: now, rx_us: rx * 15_625 / 1000, sleep_us: sl * 15_625 / 1000, hold_until: 0 });
                busy = 100;
            }
            OP_SET_CAD => {
                self.check_configured(env, "cad", V_PKT_TYPE | V_MOD | V_FREQ | V_CAD_PARAMS | V_DIO_IRQ, IRQ_CAD_DONE);
                self.mode = Mode::Cad;
                busy = 100;
            }
            OP_SET_TX_CW => self.mode = Mode::Tx,
            OP_SET_PKT_TYPE => {
                self.pkt_type = g(0);
                self.valid |= V_PKT_TYPE;
            }
            OP_SET_RF_FREQ => {
                self.freq_raw = u32::from_be_bytes([g(0), g(1), g(2), g(3)]);
                self.valid |= V_FREQ;
            }
            OP_SET_TX_PARAMS => {
                self.tx_power = g(0);
                self.valid |= V_TX_PARAMS;
            }
            OP_SET_PA_CONFIG => {
                self.pa_config = [g(0), g(1), g(2), g(3)];
                self.valid |= V_PA;
            }
            OP_SET_CAD_PARAMS => self.valid |= V_CAD_PARAMS,
            OP_SET_BUF_BASE => {
                self.tx_base = g(0);
                self.rx_base = g(1);
                self.valid |= V_BUF_BASE;
            }
            OP_SET_MOD_PARAMS => {
                self.mod_params = [g(0), g(1), g(2), g(3)];
                self.valid |= V_MOD;
            }
            OP_SET_PKT_PARAMS => {
                // LoRa: preamble(2), header type, payload length, crc, invert IQ
                self.pkt_params = [g(0), g(1), g(2), g(3), g(4), g(5)];
                self.payload_len = g(3);
                self.regs[0x0702] = g(3); // payload length register (read back by the driver in implicit-header mode)
                self.regs[0x0704] = (self.regs[0x0704] & !0x04) | if g(2) != 0 { 0x04 } else { 0 };
                self.valid |= V_PKT;
            }
            OP_GET_RX_BUF_STATUS => {
                resp = match &self.lie {
                    Some(l) => vec![l.status_buf, l.len, l.offset],
                    None => vec![self.status_byte(), self.rx_len, self.rx_start],
                }
            }
            OP_GET_PKT_STATUS => {
                resp = match &self.lie {
                    Some(l) => vec![l.status_pkt, l.rssi, l.snr, l.sig_rssi],
                    None => vec![self.status_byte(), self.pkt_status[0], self.pkt_status[1], self.pkt_status[2]],
                }
            }
            OP_GET_RSSI_INST => resp = vec![self.status_byte(), 0xB4],
            OP_CFG_DIO_IRQ => {
                self.irq_mask = u16::from_be_bytes([g(0), g(1)]);
                self.dio1_mask = u16::from_be_bytes([g(2), g(3)]);
                self.valid |= V_DIO_IRQ;
            }
            OP_GET_IRQ_STATUS => {
                let [hi, lo] = self.irq_status.to_be_bytes();
                resp = vec![self.status_byte(), hi, lo];
            }
            OP_CLR_IRQ_STATUS => self.irq_status &= !u16::from_be_bytes([g(0), g(1)]),
            OP_CALIBRATE => {
                self.valid |= V_CALIB;
                busy = 3_500;
            }
            OP_CALIBRATE_IMAGE => busy = 1_000,
            OP_SET_REGULATOR => self.valid |= V_REGULATOR,
            OP_GET_DEV_ERRORS | OP_CLR_DEV_ERRORS => resp = vec![self.status_byte(), 0, 0],
            OP_SET_TCXO => self.valid |= V_TCXO,
            OP_SET_DIO2_RFSW => self.valid |= V_DIO2,
            OP_STOP_TIMER_ON_PREAMBLE | OP_SET_SYMB_TIMEOUT => {}
            _ => {}
        }
        if !is_get {
            self.cmd_status = 1;
        }
        self.busy_until = now + busy;
        resp.resize(nread, 0);
        resp
    }

    /// Fill the data buffer with a known pattern (C18) — every value even, so it can never coincide with the canary.
    pub fn fill_pattern(&mut self, seed: u8) {
        for i in 0..256usize {
            self.buf[i] = pattern(seed, i as u8);
        }
    }

    /// The operation in progress ends the way the script says. Returns false when the outcome does not apply
    /// to the chip's present mode (nothing happens then). May advance the clock (duty-cycle: to the next RX phase).
    pub fn apply_outcome(&mut self, env: &mut Env, out: Outcome, payload: &[u8], cad_detected: bool) -> bool {
        match self.mode {
            Mode::Tx => match out {
                Outcome::Done => {
                    env.now_us += 30_000;
                    self.raise(IRQ_TX_DONE);
                    self.cmd_status = 6;
                    self.mode = Mode::StdbyRc; // fallback mode after TX (default STDBY_RC)
                    true
                }
                Outcome::Timeout => {
                    env.now_us += 30_000;
                    self.raise(IRQ_TIMEOUT);
                    self.cmd_status = 3;
                    self.mode = Mode::StdbyRc;
                    true
                }
                _ => false,
            },
            Mode::Rx(kind) => {
                if let RxKind::Duty { t0, rx_us, sleep_us, .. } = kind {
                    // a packet can only be heard in an RX phase: move the clock to the next one
                    if self.asleep(env.now_us).is_some() {
                        let cycle = rx_us + sleep_us + DUTY_OVERHEAD_US;
                        let n = (env.now_us - t0) / cycle + 1;
                        env.now_us = t0 + n * cycle + 10;
                        env.bump("probe.duty-cycle-slept-through");
                    }
                }
                let one_shot = !matches!(kind, RxKind::Continuous);
                match out {
                    Outcome::Done | Outcome::CrcError => {
                        env.now_us += 40_000;
                        for (i, b) in payload.iter().enumerate() {
                            self.buf[self.rx_base.wrapping_add(i as u8) as usize] = *b;
                        }
                        self.rx_len = payload.len() as u8;
                        self.rx_start = self.rx_base;
                        self.pkt_status = [0x50, 0x14, 0x52]; // rssi -40 dBm, snr +5 dB
                        self.raise(IRQ_PREAMBLE | IRQ_SYNC | IRQ_HEADER_VALID | IRQ_RX_DONE | if out == Outcome::CrcError { IRQ_CRC_ERR } else { 0 });
                        self.cmd_status = 2;
                        if one_shot {
                            self.mode = Mode::StdbyRc;
                        }
                        true
                    }
                    Outcome::HeaderError => {
                        env.now_us += 10_000;
                        self.raise(IRQ_PREAMBLE | IRQ_SYNC | IRQ_HEADER_ERR);
                        if one_shot {
                            self.mode = Mode::StdbyRc;
                        }
                        true
                    }
                    Outcome::Preamble => {
                        env.now_us += 2_000;
                        self.raise(IRQ_PREAMBLE);
                        if let RxKind::Duty { t0, rx_us, sleep_us, .. } = kind {
                            // preamble detected: the RX window is extended to 2*rx + sleep (datasheet 13.1.6)
                            self.mode = Mode::Rx(RxKind::Duty { t0, rx_us, sleep_us, hold_until: env.now_us + 2 * rx_us + sleep_us });
                        }
                        true
                    }
                    Outcome::Timeout | Outcome::PreambleTimeout => {
                        if matches!(kind, RxKind::Single | RxKind::Timed) {
                            env.now_us += 20_000;
                            self.raise(IRQ_TIMEOUT | if out == Outcome::PreambleTimeout { IRQ_PREAMBLE | IRQ_HEADER_VALID } else { 0 });
                            self.cmd_status = 3;
                            self.mode = Mode::StdbyRc;
                            true
                        } else {
                            false
                        }
                    }
                }
            }
            Mode::Cad => match out {
                Outcome::Done => {
                    env.now_us += 5_000;
                    self.raise(IRQ_CAD_DONE | if cad_detected { IRQ_CAD_DETECTED } else { 0 });
                    self.mode = Mode::StdbyRc;
                    true
                }
                _ => false,
            },
            _ => false,
        }
    }
}

/// Chip-buffer pattern used by C18: even values only.
pub fn pattern(seed: u8, i: u8) -> u8 {
    (i.wrapping_mul(37).wrapping_add(seed).rotate_left(3) ^ i) & 0xFE
}
