//! Expected receive windows for an uplink, from the parameters in force (H1 snapshot taken before
//! the transmission) and the RP002 tables of `refregion`.

use crate::props::TxObs;
use crate::refregion as rr;
use crate::script::RegionId;
use crate::snapshot::Snap;
use crate::world::{Ev, Rf};

#[derive(Clone, Debug)]
pub struct Expected {
    /// uplink data-rate index (from the TxConfig's SF/BW)
    pub up_dr: Option<u8>,
    /// admissible RX1 frequencies (several channels may share the uplink frequency)
    pub rx1_freqs: Vec<u32>,
    pub rx1_dr: Vec<rr::Rx1Dr>,
    pub rx2_freqs: Vec<u32>,
    pub rx2_drs: Vec<u8>,
    /// admissible RX1 delays in ms
    pub delay1_ms: Vec<u32>,
}

/// Uplink data-rate index of a transmission.
pub fn uplink_dr_of(region: RegionId, rf: &Rf) -> Option<u8> {
    let ups = rr::uplink_drs(region);
    rr::drs_matching(region, rf.sf, rf.bw_khz).into_iter().find(|d| ups.contains(d))
}

pub fn expected_windows(region: RegionId, snap: &Snap, tx: &TxObs, is_join: bool) -> Expected {
    let up_dr = uplink_dr_of(region, &tx.rf);
    let mut rx1_freqs = Vec::new();
    if region.is_fixed() {
        if let Some(ch) = rr::fixed_channel_of(region, tx.rf.freq) {
            rx1_freqs.push(rr::fixed_downlink(region, ch));
        }
    } else {
        for c in snap.channels.iter().flatten() {
            if c.freq == tx.rf.freq {
                rx1_freqs.push(c.dl_freq.unwrap_or(c.freq));
            }
        }
    }
    let mut offs = vec![snap.rx1_dr_offset];
    let mut rx2_freqs = vec![snap.rx2_frequency.unwrap_or(rr::rx2_default(region).0)];
    let mut rx2_drs = vec![snap.rx2_data_rate.unwrap_or(rr::rx2_default(region).1)];
    let mut delay1_ms = vec![snap.rx1_delay];
    if is_join {
        // a join accept is sent with the defaults; the statement does not say whether settings
        // negotiated in an earlier session still apply to a re-join, so both are admissible
        delay1_ms = vec![5000];
        if !offs.contains(&0) {
            offs.push(0);
        }
        let (f, d) = rr::rx2_default(region);
        if !rx2_freqs.contains(&f) {
            rx2_freqs.push(f);
        }
        if !rx2_drs.contains(&d) {
            rx2_drs.push(d);
        }
    }
    // the device was put (by a LinkADRReq) on a data rate that is not an uplink rate of the region,
    // e.g. DR8..13 in US915/AU915: the RX1 table has no row for it
    let non_uplink = !rr::uplink_drs(region).contains(&snap.data_rate) && rf_is_dr(region, &tx.rf, snap.data_rate);
    let rx1_dr = match up_dr {
        Some(u) if !non_uplink => offs.iter().map(|o| rr::rx1_dr(region, u, *o)).collect(),
        _ => vec![rr::Rx1Dr::Ambiguous],
    };
    Expected { up_dr, rx1_freqs, rx1_dr, rx2_freqs, rx2_drs, delay1_ms }
}

/// Does an opened window's modulation equal data rate `dr` of the region?
pub fn rf_is_dr(region: RegionId, rf: &Rf, dr: u8) -> bool {
    rr::dr_def(region, dr).map(|d| d.sf == rf.sf && d.bw == rf.bw_khz).unwrap_or(false)
}

pub fn rf_is_defined(region: RegionId, rf: &Rf) -> bool {
    !rr::drs_matching(region, rf.sf, rf.bw_khz).is_empty()
}

/// The receive-window related observations of one operation.
#[derive(Clone, Debug, Default)]
pub struct WindowObs {
    /// single-shot windows in order (RX1, RX2): (rf, buffer ms)
    pub singles: Vec<(Rf, Option<u32>)>,
    /// continuous (RXC) configurations in order, with their trace index
    pub continuous: Vec<(Rf, usize)>,
    /// async: Timer::at arguments in order
    pub timer_at: Vec<u64>,
    /// nb: TimeoutRequest values in order
    pub timeout_requests: Vec<u32>,
    /// nb: TxDone timestamp
    pub tx_done: Option<u32>,
    /// async: value returned by tx()
    pub tx_ret_ms: Option<u32>,
    /// trace index of the first accepted-downlink delivery, if any (parameters may change after it)
    pub first_delivery_at: Option<usize>,
    /// trace index of the last delivery of the operation, if any
    pub last_delivery_at: Option<usize>,
}

pub fn window_obs(trace: &[Ev], lo: usize, hi: usize) -> WindowObs {
    let mut w = WindowObs::default();
    for (i, ev) in trace[lo..hi].iter().enumerate() {
        match ev {
            Ev::SetupRx { rf, single_ms, ok: true, .. } => match single_ms {
                Some(ms) => w.singles.push((*rf, Some(*ms))),
                None => w.continuous.push((*rf, lo + i)),
            },
            Ev::NbRxRequest { rf, ok: true, .. } => w.singles.push((*rf, None)),
            Ev::TimerAt { ms, .. } => w.timer_at.push(*ms),
            Ev::NbEvent { code: crate::world::RespCode::TimeoutRequest(t), .. } => w.timeout_requests.push(*t),
            Ev::NbTxRequest { outcome, .. } => {
                if let Some(ts) = outcome.strip_prefix("TxDone(").and_then(|s| s.strip_suffix(')')) {
                    w.tx_done = ts.parse().ok();
                }
            }
            Ev::NbPhy { what, .. } => {
                if let Some(ts) = what.strip_prefix("TxComplete -> TxDone(").and_then(|s| s.strip_suffix(')')) {
                    w.tx_done = ts.parse().ok();
                }
            }
            Ev::Tx { ret_ms, ok: true, .. } => w.tx_ret_ms = Some(*ret_ms),
            Ev::Deliver { .. } => {
                if w.first_delivery_at.is_none() {
                    w.first_delivery_at = Some(lo + i);
                }
                w.last_delivery_at = Some(lo + i);
            }
            _ => {}
        }
    }
    w
}
