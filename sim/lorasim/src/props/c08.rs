//! C08 — MAC command handling is consistent and atomic: the device does what it answers.

use super::*;
use crate::exec::*;
use crate::gen::*;
use crate::refcodec as rc;
use crate::refmac::*;
use crate::script::*;
use crate::snapshot::Snap;
use crate::world::Verdict;
use simcore::*;
use std::collections::BTreeSet;

pub struct C08;

struct PendingDl {
    reqs: Vec<Req>,
    before: Snap,
    after: Snap,
    desc: String,
}

struct Mon {
    pending: Option<PendingDl>,
    /// sticky answers that every uplink must repeat until the next accepted Class A downlink
    sticky: Option<Vec<Ans>>,
    cur_keys: Option<([u8; 16], [u8; 16], u32)>,
    fcnt_up_before: Option<u32>,
}

fn optional_kind(cid: u8) -> bool {
    matches!(cid, 0x02 | 0x04 | 0x09 | 0x0D)
}

/// MAC commands carried by an uplink (FOpts, or the port-0 FRMPayload).
pub fn uplink_cmds(bytes: &[u8], keys: &([u8; 16], [u8; 16], u32), fcnt_hint: Option<u32>) -> Option<Result<Vec<Ans>, String>> {
    let p = rc::parse_data(bytes)?;
    if !p.is_uplink() {
        return None;
    }
    if p.fport == Some(0) {
        let sk = rc::SessionKeys { nwk: keys.0, app: keys.1, devaddr: keys.2 };
        let mut cands = vec![];
        for base in [fcnt_hint, Some(0)].into_iter().flatten() {
            let hi = base >> 16;
            for h in [hi.wrapping_sub(1), hi, hi.wrapping_add(1)] {
                if h <= 0xFFFF {
                    cands.push((h << 16) | p.fcnt16 as u32);
                }
            }
        }
        let n = cands.into_iter().find(|n| rc::mic_ok(bytes, &p, &sk.nwk, *n))?;
        Some(parse_uplink_cmds(&rc::decrypt_frm(&p, &sk, n)))
    } else {
        Some(parse_uplink_cmds(&p.fopts))
    }
}

fn field_kind(diff: &str) -> &'static str {
    if diff.starts_with("data_rate") || diff.starts_with("tx_power") {
        "LinkAdr"
    } else if diff.starts_with("rx1_dr_offset") || diff.starts_with("rx2_") {
        "RxParamSetup"
    } else if diff.starts_with("rx1_delay") {
        "RxTimingSetup"
    } else if diff.starts_with("channel[") {
        "Channel"
    } else {
        // "mask differs ..."
        "Mask"
    }
}

fn req_touches(r: &Req, kind: &str) -> bool {
    match (r, kind) {
        (Req::LinkAdr { .. }, "LinkAdr") | (Req::LinkAdr { .. }, "Mask") => true,
        (Req::RxParamSetup { .. }, "RxParamSetup") => true,
        (Req::RxTimingSetup { .. }, "RxTimingSetup") => true,
        (Req::NewChannel { .. }, "Channel") | (Req::NewChannel { .. }, "Mask") | (Req::DlChannel { .. }, "Channel") => true,
        _ => false,
    }
}

impl Mon {
    fn resolve(&mut self, region: RegionId, pd: PendingDl, carried_all: &[Ans], stats: &mut RunStats) -> Option<Violation> {
        let carried: Vec<Ans> = carried_all.iter().filter(|a| !optional_kind(a.cid)).cloned().collect();
        let exp = expected_answers(region, &pd.reqs);
        // carried must be a prefix of the expected answer sequence (by kind)
        let ck: Vec<u8> = carried.iter().map(|a| a.cid).collect();
        let ek: Vec<u8> = exp.iter().map(|e| e.cid).collect();
        if ck.len() > ek.len() || ck[..] != ek[..ck.len()] {
            // subsequence => something was skipped in the middle; otherwise wrong / extra answers
            let mut it = ek.iter();
            let is_subseq = ck.iter().all(|c| it.any(|e| e == c));
            let inv = if is_subseq { "C08.answer-not-trailing-drop" } else { "C08.answer-order" };
            return Some(Violation::new(
                inv,
                "",
                format!("{}: the next uplink answers with CIDs {:02x?}, expected a prefix of {:02x?} (one answer per handled request, in request order, dropping only trailing answers)", pd.desc, ck, ek),
            ));
        }
        let carried_len: usize = carried.iter().map(|a| a.len()).sum();
        if ck.len() < ek.len() {
            let next = &exp[ck.len()];
            if carried_len + next.len <= 15 {
                return Some(Violation::new(
                    "C08.answer-missing",
                    &format!("{:#04x}", next.cid),
                    format!("{}: answer {:#04x} is missing from the next uplink although it fits ({} + {} <= 15 bytes); carried {:02x?} of expected {:02x?}", pd.desc, next.cid, carried_len, next.len, ck, ek),
                ));
            }
            stats.bump("probe.answer-overflow-15-bytes");
        }
        // LinkADRReq block: identical copies
        for (i, e) in exp.iter().enumerate().take(carried.len()) {
            if let Some(b) = e.block {
                if let Some(j) = exp.iter().take(carried.len()).position(|x| x.block == Some(b)) {
                    if carried[i].payload != carried[j].payload {
                        return Some(Violation::new("C08.linkadr-copies-differ", "", format!("{}: LinkADRAns copies of one block differ: {:02x?} vs {:02x?}", pd.desc, carried[j].payload, carried[i].payload)));
                    }
                }
            }
        }
        // step the model by the device's own answers; answers that were dropped leave both outcomes open
        let unknown: Vec<usize> = (carried.len()..exp.len()).collect();
        let combos = 1usize << unknown.len().min(6);
        let mut best: Option<(Vec<String>, StepReport)> = None;
        for combo in 0..combos {
            let mut answers: Vec<Option<Ans>> = carried.iter().cloned().map(Some).collect();
            for (k, ei) in unknown.iter().enumerate() {
                let applied = k < 6 && (combo >> k) & 1 == 1;
                answers.push(if applied { Some(Ans { cid: exp[*ei].cid, payload: vec![0x07; exp[*ei].len - 1] }) } else { Some(Ans { cid: exp[*ei].cid, payload: vec![0x00; exp[*ei].len.max(2) - 1] }) });
            }
            // RXTimingSetupAns has no status byte: "not applied" is modelled by withholding the answer
            for (k, ei) in unknown.iter().enumerate() {
                let applied = k < 6 && (combo >> k) & 1 == 1;
                if exp[*ei].cid == 0x08 && !applied {
                    answers[*ei] = None;
                }
            }
            let mut m = Model::new(region, &pd.before);
            let mut rep = m.step(&pd.reqs, &exp, &answers);
            if combo != 0 || !unknown.is_empty() {
                // invalid-accepted is only judged on answers the device really gave
                rep.invalid_accepted.retain(|_| false);
                let mut m2 = Model::new(region, &pd.before);
                let only_carried: Vec<Option<Ans>> = carried.iter().cloned().map(Some).collect();
                rep.invalid_accepted = m2.step(&pd.reqs, &exp, &only_carried).invalid_accepted;
            }
            let diff = config_diff(region, &m.s, &pd.after);
            if diff.is_empty() {
                best = Some((diff, rep));
                break;
            }
            if best.is_none() {
                best = Some((diff, rep));
            }
        }
        let (diff, rep) = best.unwrap();
        if let Some(w) = rep.invalid_accepted.first() {
            return Some(Violation::new("C08.invalid-accepted", w.split(':').next().unwrap_or(""), format!("{}: a request the regional rules make unambiguously invalid was fully acknowledged: {w}", pd.desc)));
        }
        if let Some(d) = diff.first() {
            let kind = field_kind(d);
            let acked_touching = pd.reqs.iter().enumerate().any(|(i, r)| req_touches(r, kind) && rep.acked.get(i) == Some(&Some(true)));
            let naked_touching = pd.reqs.iter().enumerate().any(|(i, r)| req_touches(r, kind) && rep.acked.get(i) == Some(&Some(false)));
            let inv = if !acked_touching && naked_touching {
                "C08.nak-changed-state"
            } else if !acked_touching {
                "C08.unrequested-state-change"
            } else {
                "C08.ack-not-applied"
            };
            return Some(Violation::new(
                inv,
                &format!("{kind}|{}", if region.is_fixed() { "fixed" } else { "dynamic" }),
                format!("{}: answers {:02x?}; state after the downlink differs from the model stepped by those answers: {}", pd.desc, carried.iter().map(|a| (a.cid, a.status())).collect::<Vec<_>>(), diff.join("; ")),
            ));
        }
        if rep.acked.iter().any(|a| *a == Some(true)) {
            stats.bump("probe.acked-request-checked");
        }
        if rep.acked.iter().any(|a| *a == Some(false)) {
            stats.bump("probe.naked-request-checked");
        }
        self.sticky = Some(carried.iter().filter(|a| a.is_sticky()).cloned().collect());
        None
    }
}

impl Monitor for Mon {
    fn after_op(&mut self, w: &mut World, rec: &OpRecord, stats: &mut RunStats) -> Option<Violation> {
        if rec.result.is_panic() {
            stats.bump("probe.foreign-panic");
            return None;
        }
        if w.env.borrow().unspecified_seen > 0 {
            // a frame the statements are silent about was heard: the reference cannot follow the device
            stats.bump("probe.stood-down-after-unspecified-frame");
            return None;
        }
        let region = w.env.borrow().cfg.region;
        let keys = w.dut.session_keys();
        // a join the reference saw completed starts a new session even when its keys coincide with the old ones
        // (two DevNonces alike after an RNG streak, the recorded JoinAccept sent again)
        let joined_anew = matches!(rec.op, Op::Join(_))
            && w.env.borrow().delivered[rec.del_lo..rec.del_hi].iter().any(|d| matches!(d.verdict, crate::world::Verdict::JoinAccept(_)));
        if keys != self.cur_keys || joined_anew {
            self.cur_keys = keys;
            self.pending = None;
            self.sticky = None;
        }
        if aborted_before_tx(w, rec) {
            // the uplink that would have carried the answers never reached the radio; whether the device counts it as
            // "the next uplink" is not stated: start afresh
            self.pending = None;
            self.sticky = None;
            stats.bump("probe.uplink-aborted-before-tx");
        }
        if let (Op::Send { .. }, Some(k)) = (&rec.op, keys) {
            if let Some(tx) = tx_events(w, rec).first() {
                match uplink_cmds(&tx.bytes, &k, self.fcnt_up_before) {
                    Some(Err(e)) => {
                        return Some(Violation::new("C08.answer-partial", "", format!("the uplink's MAC commands are not a sequence of whole commands: {e}")));
                    }
                    Some(Ok(cmds)) => {
                        if let Some(pd) = self.pending.take() {
                            stats.nontrivial = true;
                            if let Some(v) = self.resolve(region, pd, &cmds, stats) {
                                return Some(v);
                            }
                            // an acknowledged LinkADRReq has taken effect: this very uplink is sent at the data rate
                            // the device now holds (an accepted block also ends any join-channel bias)
                            if let (true, Some(b)) = (cmds.iter().any(|a| a.cid == 0x03 && a.status() == 0x07), &rec.snap_before) {
                                if !crate::expect::rf_is_dr(region, &tx.rf, b.data_rate) {
                                    return Some(Violation::new(
                                        "C08.ack-not-applied",
                                        &format!("tx-datarate|{}", if region.is_fixed() { "fixed" } else { "dynamic" }),
                                        format!("{region:?}: the uplink carrying LinkADRAns 0x07 is sent at SF{}/BW{} although the device holds data rate {} after the accepted request", tx.rf.sf, tx.rf.bw_khz, b.data_rate),
                                    ));
                                }
                                stats.bump("probe.linkadr-ack-visible-in-tx");
                            }
                        } else if let Some(st) = &self.sticky {
                            let got: Vec<Ans> = cmds.iter().filter(|a| !optional_kind(a.cid)).cloned().collect();
                            if got != *st {
                                let missing = st.iter().any(|s| !got.contains(s));
                                return Some(Violation::new(
                                    if missing { "C08.sticky-not-repeated" } else { "C08.oneshot-repeated" },
                                    "",
                                    format!(
                                        "no downlink was accepted in a Class A window since the answers were first sent, yet this uplink carries {:02x?} instead of the sticky answers {:02x?}",
                                        got.iter().map(|a| a.cid).collect::<Vec<_>>(),
                                        st.iter().map(|a| a.cid).collect::<Vec<_>>()
                                    ),
                                ));
                            }
                            if !st.is_empty() {
                                stats.bump("probe.sticky-repeat-checked");
                            }
                        }
                    }
                    None => {}
                }
            }
        }
        if matches!(rec.op, Op::Listen { .. }) && self.pending.is_some() {
            stats.bump("probe.rxc-reception-before-answers");
        }
        // a downlink accepted in a Class A window of this op starts a new round
        let reacts = reactions(w, rec);
        let dels: Vec<crate::world::Delivered> = w.env.borrow().delivered[rec.del_lo..rec.del_hi].to_vec();
        for (d, r) in dels.iter().zip(reacts.iter()) {
            if !matches!(d.win, Win::Rx1 | Win::Rx2) {
                continue;
            }
            if let (Verdict::Accept { fopts, fport, plain, .. }, Reaction::Accepted(_)) = (&d.verdict, r) {
                let stream: &[u8] = if *fport == Some(0) { plain } else { fopts };
                let reqs = parse_downlink_cmds(stream);
                if let (Some(b), Some(a)) = (&rec.snap_before, &rec.snap_after) {
                    let mut b = b.clone();
                    if let Some(dr) = super::app_set_dr_mid(w, rec) {
                        // the application changed the data rate itself after the transmission, before the downlink
                        b.data_rate = dr;
                    }
                    self.pending = Some(PendingDl { reqs: reqs.clone(), before: b.clone(), after: a.clone(), desc: format!("{region:?} downlink with {:?}", reqs) });
                    self.sticky = None;
                    stats.bump("probe.classA-downlink-with-commands");
                }
            } else if let (Verdict::Accept { .. }, Reaction::Unknown) = (&d.verdict, r) {
                // the operation was cut short (an injected radio error after the frame had been handed over): whether
                // the device had processed the frame by then is not observable here; start afresh
                self.pending = None;
                self.sticky = None;
                stats.bump("probe.stood-down-after-cut-short-reception");
            } else if let Reaction::Accepted(_) = r {
                // device accepted something the reference did not: C05's business; drop expectations
                self.pending = None;
                self.sticky = None;
            }
            if d.verdict.is_reject() && self.sticky.as_ref().map(|s| !s.is_empty()).unwrap_or(false) {
                stats.bump("probe.rejected-frame-while-sticky-pending");
            }
        }
        if rec.result == OpResult::SessionExpired {
            // the session is over: whether the frame that ended it counted as accepted is not stated
            self.pending = None;
            self.sticky = None;
        }
        self.fcnt_up_before = rec.fcnt_up_after;
        None
    }
}

fn gen_cmds(r: &mut Rng, region: RegionId) -> Vec<MacSpec> {
    let k = match r.below(10) {
        0..=3 => 1,
        4..=6 => 2,
        7 | 8 => r.range(3, 5) as usize,
        _ => r.range(6, 10) as usize,
    };
    let valid_pct = *r.pick(&[20u64, 50, 80]);
    let mut v: Vec<MacSpec> = Vec::new();
    for _ in 0..k {
        let m = if r.chance(valid_pct, 100) { gen_mac_valid(r, region) } else { gen_mac(r, region) };
        // LinkADRReq blocks: sometimes extend the previous command into a block
        if let (Some(MacSpec::LinkAdr { .. }), true) = (v.last(), r.chance(1, 3)) {
            v.push(gen_mac_valid(r, region));
            continue;
        }
        v.push(m);
    }
    v
}

impl Property for C08 {
    type Case = MacCase;
    fn id(&self) -> &'static str {
        "C08"
    }
    fn level(&self) -> &'static str {
        "exploration"
    }
    fn rule(&self) -> String {
        "The field sweep of C04 (every field value of every handled MAC command x 9 regions x 3 front-ends; sampled in the quick tier, complete in the thorough tier) followed by seeded histories of 1-3 authentic Class A downlinks, each carrying 1-10 commands in FOpts or port 0 drawn from region-valid and arbitrary field values (multi-command LinkADRReq blocks, blocks interrupted by other commands, more than 15 bytes of answers), interleaved with uplinks (some on port 0), rejected frames, Class C frames and data-rate overrides. Each accepted downlink's requests are parsed by the reference, the next uplink's answers are decoded, the reference MAC model is stepped by those answers and compared with the H1 snapshot after the downlink; sticky answers are followed over later uplinks. Non-trivial: at least one downlink's answers were resolved; distinct = trace-shape hash."
            .into()
    }
    fn assumptions(&self) -> Vec<String> {
        vec![
            "a request whose answer was dropped for lack of room may or may not have been applied (all-or-nothing either way)".into(),
            "the closed list of unambiguously invalid requests is DESIGN section 8 item 2; rejecting a valid request is not a violation".into(),
            "US915 may cap the commanded TX power at 21 dBm conducted; masks are compared on defined channels in dynamic plans".into(),
            "DutyCycleReq / TXParamSetupReq / LinkCheckAns / DeviceTimeAns: no answer or a well-formed answer, no state change predicted".into(),
            "when the last enabled channel is removed the model, like LoRaWAN, re-enables the default channels".into(),
        ]
    }
    fn components(&self) -> serde_json::Value {
        crate::components_mac()
    }
    fn coverage_extra(&self, tier: Tier, runs: u64) -> serde_json::Value {
        serde_json::json!({ "bounded_depth_enumeration": super::enum_coverage(tier, runs) })
    }
    fn budget(&self, tier: Tier) -> u64 {
        match tier {
            Tier::Quick => 1_500_000,
            Tier::Thorough => 15_000_000,
        }
    }
    fn generate(&self, seed: u64, run: u64, tier: Tier, avoid: &BTreeSet<String>) -> MacCase {
        // one run in five borrows another property"s generator (same case type), so that this oracle also
        // judges histories of shapes its own generator does not produce
        if let Some(c) = super::cross_generate("C08", &["C04", "C05", "C07", "C09", "C10"], seed, run, tier, avoid) {
            return c;
        }
        // bounded-depth enumeration over the event alphabet
        if let Some(c) = super::enum_generate("C08", run, tier) {
            return c;
        }
        self.own_generate(seed, run, tier, avoid)
    }
    fn execute(&self, case: &MacCase, want_trace: bool) -> Outcome {
        let mut mon = Mon { pending: None, sticky: None, cur_keys: None, fcnt_up_before: Some(case.cfg.fcnt_up0) };
        let out = run_case(case, &mut mon, want_trace);
        Outcome { violation: out.violation, stats: out.stats, trace: out.trace }
    }
    fn self_test(&self) -> Result<(), String> {
        crate::self_test_refs()?;
        let reqs = parse_downlink_cmds(&[0x03, 0x50, 0x07, 0x00, 0x01, 0x06, 0x08, 0x02, 0xFF]);
        if reqs.len() != 3 {
            return Err("downlink command parser".into());
        }
        let exp = expected_answers(RegionId::EU868, &reqs);
        if exp.iter().map(|e| e.cid).collect::<Vec<_>>() != vec![0x03, 0x06, 0x08] {
            return Err("expected answers".into());
        }
        Ok(())
    }
    fn expected_probes(&self, _tier: Tier) -> Vec<&'static str> {
        vec!["probe.classA-downlink-with-commands", "probe.acked-request-checked", "probe.naked-request-checked", "probe.answer-overflow-15-bytes", "probe.sticky-repeat-checked", "probe.rejected-frame-while-sticky-pending", "probe.rxc-reception-before-answers"]
    }
}

impl C08 {
    pub fn own_generate(&self, seed: u64, run: u64, tier: Tier, _avoid: &BTreeSet<String>) -> MacCase {
        let n_sweep = super::c04::sweep_items(RegionId::EU868).len() as u64 * 27;
        let sweep_run = match tier {
            Tier::Thorough if run < n_sweep => Some(run),
            Tier::Quick if run < 100_000 => Some(run.wrapping_mul(2_654_435_761) % n_sweep),
            _ => None,
        };
        if let Some(sr) = sweep_run {
            if let Some(mut c) = super::c04::sweep_case(sr) {
                if !c.cfg.otaa {
                    c.ops.push(Op::Send { port: 3, len: 1, confirmed: false, txn: Txn::default() });
                    return c;
                }
            }
        }
        let mut r = Rng::new(run_seed(seed, "C08", run));
        let cfg = gen_cfg(&mut r, &CfgProfile { frontends: ALL_FRONTENDS, otaa_pct: 15, boundary_counters_pct: 0, join_bias_pct: 30 });
        let mut ops = Vec::new();
        if cfg.otaa {
            let mut t = Txn::default();
            t.rx1.push(FrameSpec::JoinAccept(gen_ja_valid(&mut r, cfg.region)));
            ops.push(Op::Join(t));
        }
        let rounds = r.range(1, 3);
        for _ in 0..rounds {
            // the downlink
            let mut d = frame_with_macs(gen_cmds(&mut r, cfg.region), r.chance(1, 4));
            d.confirmed = r.chance(1, 5);
            let mut t = Txn::default();
            if cfg.frontend == Frontend::Nb && r.chance(1, 4) {
                t.rx1.push(frame_rejected(&mut r));
            }
            if r.chance(1, 2) {
                t.rx1.push(FrameSpec::Data(d));
            } else {
                t.rx2.push(FrameSpec::Data(d));
            }
            if cfg.frontend == Frontend::AsyncC && r.chance(1, 4) {
                let mut g = frame_with_macs(vec![gen_mac_valid(&mut r, cfg.region)], false);
                g.fcnt = Fcnt::Rel(1);
                t.gap1.push(FrameSpec::Data(g));
            }
            ops.push(Op::Send { port: r.range(1, 223) as u8, len: send_len(&mut r), confirmed: r.chance(1, 4), txn: t });
            if cfg.frontend == Frontend::AsyncC && r.chance(1, 3) {
                // idle RXC listening between the downlink and the uplink that must carry its answers
                let k = r.range(1, 2);
                let frames = (0..k).map(|_| if r.chance(3, 4) { frame_ok(&mut r) } else { frame_rejected(&mut r) }).collect();
                ops.push(Op::Listen { frames, fault: None });
            }
            // uplinks that carry the answers and the sticky repeats
            let follow = r.range(1, 3);
            for _ in 0..follow {
                let mut t = Txn::default();
                match r.below(6) {
                    0 => t.rx1.push(frame_rejected(&mut r)),
                    1 => t.rx2.push(frame_rejected(&mut r)),
                    2 if cfg.frontend == Frontend::AsyncC => t.gap1.push(frame_ok(&mut r)),
                    _ => {}
                }
                let port0 = r.chance(1, 6);
                ops.push(Op::Send { port: if port0 { 0 } else { r.range(1, 223) as u8 }, len: if port0 { 0 } else { send_len(&mut r) }, confirmed: r.chance(1, 4), txn: t });
                if r.chance(1, 8) {
                    ops.push(Op::SetDr(*r.pick(&crate::refregion::uplink_drs(cfg.region))));
                }
            }
        }
        MacCase { cfg, ops, knob: 0 }
    }
}
