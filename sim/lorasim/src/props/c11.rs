//! C11 — OTAA join establishes exactly the session the JoinAccept defines.

use super::*;
use crate::exec::*;
use crate::gen::*;
use crate::refcodec as rc;
use crate::refmac::dr_is_rfu;
use crate::refregion as rr;
use crate::script::*;
use crate::world::Verdict;
use simcore::*;
use std::collections::BTreeSet;

pub struct C11;

struct Mon;

/// Is `dr` a data rate that is valid for RX2 in the region *and* implemented by the stack
/// (then a JoinAccept naming it must be applied)?
fn rx2_dr_must_apply(region: RegionId, dr: u8) -> bool {
    if region.is_fixed() {
        (8..=13).contains(&dr)
    } else {
        dr <= 5
    }
}

impl Monitor for Mon {
    fn after_op(&mut self, w: &mut World, rec: &OpRecord, stats: &mut RunStats) -> Option<Violation> {
        if rec.result.is_panic() {
            stats.bump("probe.foreign-panic");
            return None;
        }
        let Op::Join(_) = &rec.op else { return None };
        let (region, id) = {
            let e = w.env.borrow();
            (e.cfg.region, e.id.clone())
        };
        stats.nontrivial = true;
        // 1. the JoinRequest
        let txs = tx_events(w, rec);
        if aborted_before_tx(w, rec) && w.env.borrow().trace[rec.trace_lo..rec.trace_hi].iter().any(|ev| matches!(ev, crate::world::Ev::Fault { .. })) {
            // an injected radio error hit a radio call that precedes the transmission: no attempt was made
            stats.bump("probe.join-aborted-before-tx");
            return None;
        }
        let Some(tx) = txs.first() else {
            return Some(Violation::new("C11.join-request-bytes", "none", format!("the join attempt did not hand any frame to the radio (result {:?})", rec.result)));
        };
        let Some(jr) = rc::parse_join_request(&tx.bytes) else {
            return Some(Violation::new("C11.join-request-bytes", "shape", format!("not a 23-byte JoinRequest with MHDR 0x00: {}", hex(&tx.bytes))));
        };
        if jr.join_eui != id.appeui || jr.dev_eui != id.deveui {
            return Some(Violation::new("C11.join-request-bytes", "eui", format!("JoinEUI/DevEUI on the wire {} {} differ from the credentials {} {}", hex(&jr.join_eui), hex(&jr.dev_eui), hex(&id.appeui), hex(&id.deveui))));
        }
        if rc::join_request_mic(&id.appkey, &tx.bytes) != jr.mic {
            return Some(Violation::new("C11.join-request-bytes", "mic", "JoinRequest MIC does not verify under the root key".to_string()));
        }
        if !tx.ok {
            return None;
        }
        // 2. outcome
        let dels: Vec<crate::world::Delivered> = w.env.borrow().delivered[rec.del_lo..rec.del_hi].to_vec();
        let reacts = reactions(w, rec);
        let accept = dels.iter().zip(reacts.iter()).find_map(|(d, _)| match &d.verdict {
            Verdict::JoinAccept(ja) if matches!(d.win, Win::Rx1 | Win::Rx2) => Some(ja.clone()),
            _ => None,
        });
        if dels.iter().any(|d| matches!(d.verdict, Verdict::Unspecified(_))) {
            stats.bump("probe.unspecified-frame-during-join");
            // The statement does not say whether a JoinAccept heard outside RX1/RX2 (Class C listening between the
            // windows) may be acted upon. But if the device did become joined upon it - its keys are the derivation
            // from that very accept - the session must be the one the accept defines: both counters restart.
            if let Some((dn, da, addr)) = w.dut.session_keys() {
                for d in dels.iter().filter(|d| matches!(d.verdict, Verdict::Unspecified("join-accept outside RX1/RX2"))) {
                    if let Some(ja) = rc::open_join_accept(&id.appkey, &d.bytes) {
                        let (nwk, app) = rc::derive_session_keys(&id.appkey, &ja.join_nonce, &ja.net_id, &jr.dev_nonce);
                        if dn == nwk && da == app && addr == ja.devaddr {
                            stats.bump("probe.joined-upon-accept-outside-windows");
                            if rec.fcnt_up_after != Some(0) || rec.fcnt_down_after != Some(None) {
                                return Some(Violation::new(
                                    "C11.counters-not-reset",
                                    "accept-outside-windows",
                                    format!("the device became joined upon a JoinAccept heard outside RX1/RX2 ({:?}) and then holds FCntUp={:?} FCntDown={:?}", d.win, rec.fcnt_up_after, rec.fcnt_down_after),
                                ));
                            }
                        }
                    }
                }
            }
            return None;
        }
        let keys = w.dut.session_keys();
        // a radio error inside the attempt ends the call with an error whatever was received before it
        let faulted = {
            let e = w.env.borrow();
            e.trace[rec.trace_lo..rec.trace_hi].iter().any(|ev| matches!(ev, crate::world::Ev::Fault { .. }))
        };
        if faulted {
            stats.bump("probe.radio-error-during-join");
        }
        match accept {
            None => {
                if dels.iter().any(|d| !matches!(d.win, Win::Rx1 | Win::Rx2)) {
                    stats.bump("probe.classc-frame-during-join");
                }
                if rec.result != OpResult::NoJoinAccept && !(faulted && rec.result == OpResult::RadioErr) {
                    return Some(Violation::new(
                        if rec.result == OpResult::JoinSuccess { "C11.joined-without-authentic-accept" } else { "C11.no-accept-outcome" },
                        &format!("{:?}", rec.result).chars().take(12).collect::<String>(),
                        format!("no authentic JoinAccept was delivered in RX1/RX2 ({} frames heard), yet the attempt ended with {:?}", dels.len(), rec.result),
                    ));
                }
                if keys.is_some() {
                    return Some(Violation::new("C11.joined-without-authentic-accept", "state", format!("the attempt ended with {:?} without an authentic JoinAccept but the device holds a session", rec.result)));
                }
                stats.bump("probe.no-accept-checked");
            }
            Some(ja) => {
                if faulted && rec.result == OpResult::RadioErr && keys.is_none() {
                    // the radio failed before the accept was processed
                    return None;
                }
                if rec.result != OpResult::JoinSuccess && !(faulted && rec.result == OpResult::RadioErr) {
                    return Some(Violation::new(
                        "C11.authentic-accept-not-joined",
                        &format!("{:?}", w.env.borrow().cfg.frontend),
                        format!("an authentic JoinAccept was delivered in a receive window but the attempt ended with {:?} ({} frames heard)", rec.result, dels.len()),
                    ));
                }
                let (nwk, app) = rc::derive_session_keys(&id.appkey, &ja.join_nonce, &ja.net_id, &jr.dev_nonce);
                match keys {
                    None => return Some(Violation::new("C11.session-keys", "none", "JoinSuccess but no session".to_string())),
                    Some((dn, da, addr)) => {
                        if dn != nwk || da != app {
                            return Some(Violation::new(
                                "C11.session-keys",
                                if dn != nwk { "nwkskey" } else { "appskey" },
                                format!("session keys differ from the LoRaWAN 1.0.x derivation from (AppKey, JoinNonce {}, NetID {}, DevNonce {})", hex(&ja.join_nonce), hex(&ja.net_id), hex(&jr.dev_nonce)),
                            ));
                        }
                        if addr != ja.devaddr {
                            return Some(Violation::new("C11.devaddr", "", format!("device address {addr:08x}, assigned {:08x}", ja.devaddr)));
                        }
                    }
                }
                if rec.fcnt_up_after != Some(0) || rec.fcnt_down_after != Some(None) {
                    return Some(Violation::new("C11.counters-not-reset", "", format!("after the join FCntUp={:?} FCntDown={:?}", rec.fcnt_up_after, rec.fcnt_down_after)));
                }
                // settings
                let (Some(b), Some(a)) = (&rec.snap_before, &rec.snap_after) else { return None };
                let del = ja.rx_delay & 0x0f;
                let want_delay = if del < 2 { 1000 } else { del as u32 * 1000 };
                if a.rx1_delay != want_delay {
                    return Some(Violation::new("C11.valid-setting-not-applied", "rx-delay", format!("JoinAccept RxDelay {} => {} ms, device uses {} ms", ja.rx_delay, want_delay, a.rx1_delay)));
                }
                let off = (ja.dl_settings >> 4) & 7;
                if off <= rr::max_rx1_dr_offset(region) {
                    if a.rx1_dr_offset != off {
                        return Some(Violation::new("C11.valid-setting-not-applied", "rx1-dr-offset", format!("RX1DROffset {off} is valid for {region:?} but the device uses {}", a.rx1_dr_offset)));
                    }
                } else if a.rx1_dr_offset != b.rx1_dr_offset {
                    return Some(Violation::new("C11.invalid-setting-applied", "rx1-dr-offset", format!("RX1DROffset {off} exceeds the regional maximum but changed the device's offset to {}", a.rx1_dr_offset)));
                } else {
                    stats.bump("probe.invalid-offset-ignored");
                }
                let dr = ja.dl_settings & 0x0f;
                if rx2_dr_must_apply(region, dr) {
                    if a.rx2_data_rate != Some(dr) {
                        return Some(Violation::new("C11.valid-setting-not-applied", "rx2-dr", format!("RX2 data rate {dr} is valid for {region:?} but the device uses {:?}", a.rx2_data_rate)));
                    }
                } else if dr == 15 || dr_is_rfu(region, dr) {
                    if a.rx2_data_rate != b.rx2_data_rate {
                        return Some(Violation::new("C11.invalid-setting-applied", "rx2-dr", format!("RX2 data rate {dr} is RFU in {region:?} but the device now uses {:?}", a.rx2_data_rate)));
                    }
                    stats.bump("probe.invalid-rx2dr-ignored");
                }
                // CFList
                if let Some(cf) = &ja.cflist {
                    let jn = rr::default_channels(region).len();
                    match (region.is_fixed(), cf[15]) {
                        (false, 0) => {
                            for i in 0..5 {
                                let f = (cf[3 * i] as u32 | (cf[3 * i + 1] as u32) << 8 | (cf[3 * i + 2] as u32) << 16) * 100;
                                let ch = a.channels.get(jn + i).and_then(|c| c.as_ref());
                                if f != 0 && rr::in_band(region, f) {
                                    if ch.map(|c| c.freq) != Some(f) {
                                        return Some(Violation::new("C11.valid-setting-not-applied", "cflist-frequency", format!("CFList channel {} = {f} Hz is valid for {region:?} but the device has {:?}", jn + i, ch)));
                                    }
                                    // a CFList entry defines a plain channel: RX1 on the same frequency
                                    if let Some(c) = ch {
                                        if c.dl_freq.is_some() && c.dl_freq != Some(f) {
                                            return Some(Violation::new("C11.valid-setting-not-applied", "cflist-channel-stale-mapping", format!("CFList defines channel {} = {f} Hz but the device keeps the downlink mapping {:?} of the previous session for it", jn + i, c.dl_freq)));
                                        }
                                    }
                                    stats.bump("probe.cflist-channel-applied");
                                } else if f == 0 {
                                    // 0 marks the position as unused in the new session's channel list
                                    if let Some(c) = ch {
                                        return Some(Violation::new("C11.valid-setting-not-applied", "cflist-unused-entry", format!("CFList entry for channel {} is 0 (unused) but the device still has {} Hz there", jn + i, c.freq)));
                                    }
                                    stats.bump("probe.cflist-unused-entry-empty");
                                } else if f != 0 && ch.map(|c| c.freq) == Some(f) {
                                    return Some(Violation::new("C11.invalid-setting-applied", "cflist-frequency", format!("CFList channel {} = {f} Hz is outside the band of {region:?} but was installed", jn + i)));
                                }
                            }
                        }
                        (true, 1) => {
                            let n125 = (0..64).filter(|c| cf[c / 8] & (1 << (c % 8)) != 0).count();
                            let any = cf[..9].iter().any(|b| *b != 0);
                            if n125 >= 2 && cf[8] != 0 {
                                if a.mask[..] != cf[..9] {
                                    return Some(Violation::new("C11.valid-setting-not-applied", "cflist-mask", format!("CFList channel mask {} is valid but the device's mask is {}", hex(&cf[..9]), hex(&a.mask))));
                                }
                                stats.bump("probe.cflist-mask-applied");
                            } else if !any && a.mask != b.mask {
                                return Some(Violation::new("C11.invalid-setting-applied", "cflist-mask", "an all-zero CFList channel mask was installed".to_string()));
                            }
                        }
                        (false, 1) | (true, 0) => {
                            // a channel-mask list in a dynamic-plan region, a frequency list in a fixed-plan region:
                            // RP002 defines no such list for the region, so it is not valid there and must be ignored
                            if a.mask != b.mask || a.channels != b.channels {
                                return Some(Violation::new("C11.invalid-setting-applied", "cflist-foreign-type", format!("a CFList of type {} changed the channel plan of {region:?}, which defines no such list", cf[15])));
                            }
                            stats.bump("probe.foreign-cflist-ignored");
                        }
                        (_, t) if t >= 2 => {
                            if a.mask != b.mask || a.channels != b.channels {
                                return Some(Violation::new("C11.invalid-setting-applied", "cflist-rfu-type", format!("a CFList of RFU type {t} changed the channel plan")));
                            }
                            stats.bump("probe.rfu-cflist-ignored");
                        }
                        _ => {}
                    }
                }
                stats.bump("probe.join-success-checked");
            }
        }
        None
    }
}

fn tamper_ja(r: &mut Rng, mut j: JaSpec) -> JaSpec {
    j.tamper = match r.below(5) {
        0 => Tamper::WrongNwkKey,
        1 => Tamper::BitFlip(r.below(17 * 8) as u16),
        2 => Tamper::Truncate(r.range(1, 5) as u8),
        3 => Tamper::Extend(r.range(1, 17) as u8),
        _ => Tamper::ZeroMic,
    };
    j
}

fn gen_join_txn(r: &mut Rng, cfg: &WorldCfg) -> Txn {
    let mut t = Txn::default();
    t.tx_ms = *r.pick(&[0u32, 0, 70, 1500]);
    let nb = cfg.frontend == Frontend::Nb;
    if nb {
        t.nb_deferred_tx = r.chance(1, 4);
    }
    if r.chance(1, 10) {
        // a radio error at some call of the attempt (also after the accept has been processed)
        t.fault = Some(Fault { pos: r.below(10) as u16, extra: 0 });
    }
    let ja = if r.chance(1, 2) { gen_ja(r, cfg.region, true) } else { gen_ja_valid(r, cfg.region) };
    match r.below(10) {
        0 | 1 => {} // lost
        2 | 3 | 4 => t.rx1.push(FrameSpec::JoinAccept(ja)),
        5 | 6 => t.rx2.push(FrameSpec::JoinAccept(ja)),
        7 => {
            // corrupted / wrong key
            let bad = FrameSpec::JoinAccept(tamper_ja(r, ja.clone()));
            if r.chance(1, 2) {
                t.rx1.push(bad);
                if r.chance(1, 2) {
                    t.rx2.push(FrameSpec::JoinAccept(ja));
                }
            } else {
                t.rx2.push(bad);
            }
        }
        8 => {
            // preceded by foreign traffic
            if nb {
                t.rx1.push(frame_rejected(r));
                t.rx1.push(FrameSpec::JoinAccept(ja));
            } else {
                t.rx1.push(frame_rejected(r));
                t.rx2.push(FrameSpec::JoinAccept(ja));
            }
        }
        _ => {
            // a data frame (of the old session, or garbage) instead of an accept
            t.rx1.push(frame_ok(r));
            if r.chance(1, 2) {
                t.rx2.push(FrameSpec::JoinAccept(ja));
            }
        }
    }
    if cfg.frontend == Frontend::AsyncC && r.chance(1, 4) {
        // foreign traffic, a data frame, or (one time in four) a JoinAccept that arrives outside the two windows
        let f = if r.chance(1, 4) {
            FrameSpec::JoinAccept(gen_ja(r, cfg.region, false))
        } else if r.chance(1, 2) {
            frame_rejected(r)
        } else {
            frame_ok(r)
        };
        if r.chance(1, 2) {
            t.gap1.push(f);
        } else {
            t.gap2.push(f);
        }
    }
    t
}

impl Property for C11 {
    type Case = MacCase;
    fn id(&self) -> &'static str {
        "C11"
    }
    fn level(&self) -> &'static str {
        "exploration"
    }
    fn rule(&self) -> String {
        "Seeded OTAA histories in every region and front-end (join bias, 4 boards): join attempts whose JoinAccept is lost, arrives in RX1 or RX2, is corrupted (bit flip, truncation, extension, zero MIC) or encrypted under a wrong key, is preceded by foreign traffic or replaced by data frames, with contents from the full space (JoinNonce, NetID, DevAddr, all 256 DLSettings, RxDelay incl. RFU bits, CFList type 0/1/RFU with frequency / mask classes) and from the region-valid space; any number of failed attempts, re-joins from a joined state, uplinks and downlinks in between. Each JoinRequest is decoded and each outcome compared with the independent key derivation and the 'applied iff valid' model. Non-trivial: at least one join attempt checked; distinct = trace-shape hash."
            .into()
    }
    fn assumptions(&self) -> Vec<String> {
        vec![
            "RX2 data rates that RP002 defines but this stack does not implement (or that are uplink-only) and channel masks with fewer than two 125 kHz channels may be applied or ignored; CFLists of a type the region does not define (type 1 in dynamic-plan regions, type 0 in fixed-plan regions) must be ignored".into(),
            "only the low nibble of the RxDelay octet is interpreted (the high nibble is RFU)".into(),
        ]
    }
    fn components(&self) -> serde_json::Value {
        crate::components_mac()
    }
    fn coverage_extra(&self, tier: Tier, runs: u64) -> serde_json::Value {
        serde_json::json!({ "bounded_depth_enumeration": super::enum_coverage(tier, runs) })
    }
    fn budget(&self, tier: Tier) -> u64 {
        match tier {
            Tier::Quick => 2_000_000,
            Tier::Thorough => 40_000_000,
        }
    }
    fn generate(&self, seed: u64, run: u64, tier: Tier, avoid: &BTreeSet<String>) -> MacCase {
        // one run in five borrows another property"s generator (same case type), so that this oracle also
        // judges histories of shapes its own generator does not produce
        if let Some(c) = super::cross_generate("C11", &["C04", "C07", "C09", "C10"], seed, run, tier, avoid) {
            return c;
        }
        // bounded-depth enumeration over the event alphabet
        if let Some(c) = super::enum_generate("C11", run, tier) {
            return c;
        }
        self.own_generate(seed, run, tier, avoid)
    }
    fn execute(&self, case: &MacCase, want_trace: bool) -> Outcome {
        let mut mon = Mon;
        let out = run_case(case, &mut mon, want_trace);
        Outcome { violation: out.violation, stats: out.stats, trace: out.trace }
    }
    fn self_test(&self) -> Result<(), String> {
        crate::self_test_refs()
    }
    fn expected_probes(&self, _tier: Tier) -> Vec<&'static str> {
        vec!["probe.join-success-checked", "probe.no-accept-checked", "probe.invalid-offset-ignored", "probe.invalid-rx2dr-ignored", "probe.cflist-channel-applied", "probe.cflist-mask-applied", "probe.rfu-cflist-ignored", "probe.classc-frame-during-join"]
    }
}

impl C11 {
    pub fn own_generate(&self, seed: u64, run: u64, _tier: Tier, _avoid: &BTreeSet<String>) -> MacCase {
        let mut r = Rng::new(run_seed(seed, "C11", run));
        let mut cfg = gen_cfg(&mut r, &CfgProfile { frontends: ALL_FRONTENDS, otaa_pct: 100, boundary_counters_pct: 0, join_bias_pct: 40 });
        cfg.otaa = true;
        let n = r.range(1, 8) as usize;
        let mut ops = Vec::new();
        for _ in 0..n {
            match r.below(8) {
                0 | 1 => {
                    let mut t = Txn::default();
                    if r.chance(1, 2) {
                        // sometimes with commands that leave per-channel state behind for the next join to replace
                        let f = if r.chance(1, 3) { FrameSpec::Data(frame_with_macs((0..r.range(1, 2)).map(|_| gen_mac_valid(&mut r, cfg.region)).collect(), false)) } else { frame_ok(&mut r) };
                        t.rx1.push(f);
                    }
                    ops.push(Op::Send { port: r.range(1, 223) as u8, len: send_len(&mut r), confirmed: r.chance(1, 4), txn: t });
                }
                2 => ops.push(Op::SetDr(*r.pick(&rr::uplink_drs(cfg.region)))),
                3 if r.chance(1, 3) => ops.push(Op::SaveRestore), // power cycle between attempts / sessions
                _ => {
                    let mut t = gen_join_txn(&mut r, &cfg);
                    // now and then the application has provisioned the other set of credentials since the last attempt
                    t.alt_identity = r.chance(1, 6);
                    ops.push(Op::Join(t));
                }
            }
        }
        if !ops.iter().any(|o| matches!(o, Op::Join(_))) {
            let t = gen_join_txn(&mut r, &cfg);
            ops.insert(0, Op::Join(t));
        }
        MacCase { cfg, ops, knob: 0 }
    }
}
