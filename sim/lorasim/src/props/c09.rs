//! C09 — every transmission uses an enabled in-band channel, a legal data rate and power;
//! channel selection always terminates.

use super::*;
use crate::exec::*;
use crate::gen::*;
use crate::refcodec as rc;
use crate::refregion as rr;
use crate::script::*;
use crate::snapshot::Snap;
use simcore::*;
use std::collections::BTreeSet;

pub struct C09;

struct Mon {
    /// enumerate the RNG outcomes of the final transmission by re-execution
    expand: bool,
    case: MacCase,
    secondary: bool,
    /// the level the network last commanded, followed independently of the device: the H1 value as it stood after
    /// the last operation that could legitimately change it (a join, a restore, an operation in which a frame was
    /// heard that the reference does not reject); `None` until the first operation
    tracked: Option<Option<u8>>,
}

fn usable_for_dr(region: RegionId, s: &Snap, dr: u8) -> bool {
    if region.is_fixed() {
        match rr::dr_def(region, dr) {
            Some(def) => {
                let range = if def.bw == 500 { 64..72 } else { 0..64 };
                range.into_iter().any(|c| s.mask_bit(c))
            }
            None => false,
        }
    } else {
        (0..16).any(|i| s.mask_bit(i) && s.channels.get(i).map(|c| c.is_some()).unwrap_or(false))
    }
}

fn check_tx(w: &World, rec: &OpRecord, stats: &mut RunStats, tracked: Option<u8>) -> Option<Violation> {
    let (region, board, join_bias) = {
        let e = w.env.borrow();
        (e.cfg.region, BOARDS[e.cfg.board as usize % BOARDS.len()], e.cfg.join_bias)
    };
    let Some(snap) = rec.snap_before.as_ref() else { return None };
    if rec.result == OpResult::Livelock {
        let dr = snap.data_rate;
        let usable = usable_for_dr(region, snap, dr);
        return Some(Violation::new(
            if usable { "C09.draw-budget" } else { "C09.no-usable-channel" },
            &format!("{}|{}", if region.is_fixed() { "fixed" } else { "dynamic" }, rec.op.kind()),
            format!(
                "{region:?}: channel selection for a {} at DR{dr} did not terminate; mask {} (usable channel for that data rate in the pre-transmission state: {usable})",
                rec.op.kind(),
                snap.mask.iter().map(|b| format!("{b:02x}")).collect::<String>()
            ),
        ));
    }
    for tx in tx_events(w, rec) {
        stats.nontrivial = true;
        let is_join = rc::parse_join_request(&tx.bytes).is_some();
        let f = tx.rf.freq;
        let ctx = format!("{region:?} {} frame at {f} Hz SF{}/BW{} pw={} (board max {} dBm, gain {} dBi)", if is_join { "join" } else { "data" }, tx.rf.sf, tx.rf.bw_khz, tx.pw, board.0, board.1);
        if !rr::in_band(region, f) {
            return Some(Violation::new("C09.out-of-band", &format!("{region:?}"), format!("{ctx}: frequency outside the regional band {:?}", rr::band(region))));
        }
        let drs = rr::drs_matching(region, tx.rf.sf, tx.rf.bw_khz);
        let ups = rr::uplink_drs(region);
        if drs.is_empty() || tx.rf.cr != 5 {
            return Some(Violation::new("C09.datarate-undefined", &format!("{region:?}"), format!("{ctx}: not a LoRa data rate of the region")));
        }
        if region.is_fixed() {
            let Some(ch) = rr::fixed_channel_of(region, f) else {
                return Some(Violation::new("C09.channel-not-enabled", "off-grid", format!("{ctx}: not a channel of the fixed plan")));
            };
            let want_bw = if ch < 64 { 125 } else { 500 };
            if tx.rf.bw_khz != want_bw {
                return Some(Violation::new(
                    "C09.bandwidth-class",
                    &format!("{region:?}|{}|ch{}", if is_join { "join" } else { "data" }, if ch < 64 { "<64" } else { ">=64" }),
                    format!("{ctx}: channel {ch} is a {want_bw} kHz channel"),
                ));
            }
            if is_join {
                let want = rr::fixed_join_drs(region, ch);
                if !want.iter().any(|d| crate::expect::rf_is_dr(region, &tx.rf, *d)) {
                    return Some(Violation::new("C09.join-datarate", &format!("{region:?}|ch{}", if ch < 64 { "<64" } else { ">=64" }), format!("{ctx}: join channel {ch} mandates DR{want:?}")));
                }
                stats.bump("probe.fixed-join-checked");
            } else {
                if !snap.mask_bit(ch as usize) {
                    return Some(Violation::new(
                        "C09.channel-not-enabled",
                        &format!("fixed|bias={}", join_bias.is_some()),
                        format!("{ctx}: channel {ch} is disabled in the channel mask {}", snap.mask.iter().map(|b| format!("{b:02x}")).collect::<String>()),
                    ));
                }
                if !drs.iter().any(|d| ups.contains(d)) {
                    stats.bump("probe.downlink-only-dr-used-for-uplink");
                }
            }
        } else if is_join {
            if !rr::default_channels(region).contains(&f) {
                return Some(Violation::new("C09.join-channel", &format!("{region:?}"), format!("{ctx}: not a default (join) channel {:?}", rr::default_channels(region))));
            }
        } else {
            let ok = snap.channels.iter().enumerate().any(|(i, c)| c.as_ref().map(|c| c.freq == f).unwrap_or(false) && snap.mask_bit(i));
            if !ok {
                return Some(Violation::new("C09.channel-not-enabled", "dynamic", format!("{ctx}: no defined and enabled channel has this frequency; plan {:?} mask {:02x}{:02x}", snap.channels.iter().map(|c| c.as_ref().map(|c| c.freq)).collect::<Vec<_>>(), snap.mask[0], snap.mask[1])));
            }
        }
        // power
        let pw = tx.pw as i32;
        if pw > board.0 as i32 {
            return Some(Violation::new("C09.power-above-radio-max", &format!("{region:?}"), format!("{ctx}: above the radio's maximum (network-commanded level {:?})", snap.tx_power)));
        }
        if pw > rr::max_eirp(region) - board.1 as i32 {
            return Some(Violation::new("C09.power-above-region", &format!("{region:?}"), format!("{ctx}: above the regional maximum EIRP {} dBm less antenna gain", rr::max_eirp(region))));
        }
        if let (false, Some(cmd)) = (is_join, snap.tx_power) {
            if pw > cmd as i32 {
                return Some(Violation::new("C09.power-above-commanded", &format!("{region:?}"), format!("{ctx}: above the level the network last commanded ({cmd} dBm)")));
            }
            stats.bump("probe.commanded-power-in-force");
        }
        if let (false, Some(cmd)) = (is_join, tracked) {
            // the device's own record of the commanded level has changed since the network last had a say
            if pw > cmd as i32 {
                return Some(Violation::new(
                    "C09.power-above-commanded",
                    &format!("{region:?}|limit-forgotten"),
                    format!("{ctx}: above the level the network last commanded ({cmd} dBm); the device's own record of that level became {:?} in an operation without any command from the network", snap.tx_power),
                ));
            }
        }
        stats.bump("probe.tx-checked");
    }
    None
}

impl Monitor for Mon {
    fn after_op(&mut self, w: &mut World, rec: &OpRecord, stats: &mut RunStats) -> Option<Violation> {
        if let OpResult::Panic { .. } = rec.result {
            stats.bump("probe.foreign-panic");
            return None;
        }
        if let Some(s) = &rec.snap_after {
            if !self.secondary {
                stats.states.push(s.config_hash());
            }
        }
        if let Some((kind, detail, msg)) = take_stack_alert(w, &["tx-config", "tx-power", "tx-unrequested"]) {
            return Some(Violation::new(&format!("C09.chip-{kind}"), &detail, format!("full stack (real lora-phy on a simulated chip): {msg}")));
        }
        let before = rec.snap_before.as_ref().map(|s| s.tx_power);
        if self.tracked.is_none() {
            self.tracked = before;
        }
        let v = check_tx(w, rec, stats, self.tracked.flatten());
        if let Some(after) = rec.snap_after.as_ref().map(|s| s.tx_power) {
            let heard = {
                let e = w.env.borrow();
                e.delivered[rec.del_lo..rec.del_hi].iter().any(|d| !matches!(d.verdict, crate::world::Verdict::Reject(_)))
            };
            let legit = heard || !matches!(rec.op, Op::Send { .. } | Op::SetDr(_) | Op::SetAdr(_));
            let tighter = match (after, self.tracked.flatten()) {
                (Some(a), Some(t)) => a <= t,
                (Some(_), None) => true,
                (None, None) => true,
                (None, Some(_)) => false,
            };
            if legit || tighter {
                self.tracked = Some(after);
            } else {
                stats.bump("probe.commanded-power-loosened-without-command");
            }
        }
        v
    }

    fn at_end(&mut self, _w: &mut World, stats: &mut RunStats) -> Option<Violation> {
        if !self.expand || self.secondary {
            return None;
        }
        // every possible first channel draw of the final transmission, by re-execution of the script
        let last_tx = self.case.ops.iter().rposition(|o| matches!(o, Op::Send { .. } | Op::Join(_)))?;
        for v in 0..64u32 {
            let mut w2 = World::new(&self.case.cfg);
            let mut sub = Mon { expand: false, case: self.case.clone(), secondary: true, tracked: None };
            for (idx, op) in self.case.ops.iter().enumerate().take(last_tx + 1) {
                if idx == last_tx {
                    let mut e = w2.env.borrow_mut();
                    e.forced_draws.clear();
                    if matches!(op, Op::Join(_)) {
                        // the first draw of a join is the DevNonce
                        e.forced_draws.push_back(0x1234);
                    }
                    e.forced_draws.push_back(v);
                }
                // `begin_op` reseeds the per-operation stream; forced values take precedence
                let rec = w2.step(idx, op);
                if idx == last_tx {
                    if let Some(mut viol) = sub.after_op(&mut w2, &rec, stats) {
                        viol.message = format!("[with the first channel draw forced to {v}] {}", viol.message);
                        return Some(viol);
                    }
                }
                if rec.result.is_panic() {
                    break;
                }
            }
            stats.bump("probe.rng-outcome-enumerated");
        }
        None
    }
}

fn gen_frame(r: &mut Rng, cfg: &WorldCfg, wild_pct: u64) -> FrameSpec {
    let k = r.range(1, 3) as usize;
    let macs: Vec<MacSpec> = (0..k)
        .map(|_| {
            let m = if r.chance(wild_pct, 100) { gen_mac(r, cfg.region) } else { gen_mac_valid(r, cfg.region) };
            // bias towards the commands that move channels, data rate and power
            match m {
                MacSpec::RxTimingSetup { .. } | MacSpec::DevStatus | MacSpec::RxParamSetup { .. } if r.chance(2, 3) => gen_mac_valid(r, cfg.region),
                m => m,
            }
        })
        .collect();
    FrameSpec::Data(frame_with_macs(macs, r.chance(1, 5)))
}

impl Property for C09 {
    type Case = MacCase;
    fn id(&self) -> &'static str {
        "C09"
    }
    fn level(&self) -> &'static str {
        "exploration"
    }
    fn rule(&self) -> String {
        "Seeded histories over 9 regions x 4 boards (MAX_RADIO_POWER 5..30 dBm, antenna gain -2..3 dBi) x join-bias settings x 3 front-ends: OTAA joins with valid and arbitrary CFLists, LinkADRReq masks / data rates / powers, NewChannelReq create and delete, application data-rate overrides, and stretches of 100-170 uplinks without downlink so that ADR back-off crosses the bandwidth classes of the fixed plans. Every frame handed to the radio is checked against the admissible set computed from the pre-transmission H1 snapshot and RP002. The harness owns the RNG: in the thorough tier (1 run in 8 in the quick tier) the final transmission of each history is re-executed once per forced first channel draw 0..63, so every possible channel choice at that state is observed; the RNG-draw budget bounds the retry loops. Non-trivial: at least one frame checked; distinct = trace-shape hash; states = distinct (configuration, plan, mask) hashes reached."
            .into()
    }
    fn assumptions(&self) -> Vec<String> {
        vec![
            "the channel plan / mask in force is read through the H1 snapshot before the transmission (C08 and C11 check that it follows the network)".into(),
            "the network-commanded level bounds the conducted power directly (the looser reading of the statement); joins are bounded by the radio and the region only".into(),
            "DR8-13 used as uplink rates in US915/AU915 after a LinkADRReq are accepted (statement silent); AU915 125 kHz join channels accept DR2 or DR0 (RP002 revisions differ)".into(),
            "set_datarate is only called with rates usable under the current mask (documented domain)".into(),
        ]
    }
    fn components(&self) -> serde_json::Value {
        crate::components_mac()
    }
    fn coverage_extra(&self, tier: Tier, runs: u64) -> serde_json::Value {
        serde_json::json!({ "bounded_depth_enumeration": super::enum_coverage(tier, runs) })
    }
    fn budget(&self, tier: Tier) -> u64 {
        match tier {
            Tier::Quick => 500_000,
            Tier::Thorough => 4_000_000,
        }
    }
    fn generate(&self, seed: u64, run: u64, tier: Tier, avoid: &BTreeSet<String>) -> MacCase {
        // one run in five borrows another property"s generator (same case type), so that this oracle also
        // judges histories of shapes its own generator does not produce
        if let Some(c) = super::cross_generate("C09", &["C04", "C06", "C07", "C08", "C10", "C11", "C12"], seed, run, tier, avoid) {
            return c;
        }
        // bounded-depth enumeration over the event alphabet
        if let Some(c) = super::enum_generate("C09", run, tier) {
            return c;
        }
        self.own_generate(seed, run, tier, avoid)
    }
    fn execute(&self, case: &MacCase, want_trace: bool) -> Outcome {
        let mut mon = Mon { expand: case.knob == 1 && case.ops.len() < 60, case: case.clone(), secondary: false, tracked: None };
        let out = run_case(case, &mut mon, want_trace);
        Outcome { violation: out.violation, stats: out.stats, trace: out.trace }
    }
    fn self_test(&self) -> Result<(), String> {
        crate::self_test_refs()
    }
    fn expected_probes(&self, _tier: Tier) -> Vec<&'static str> {
        vec!["probe.tx-checked", "probe.fixed-join-checked", "probe.commanded-power-in-force", "probe.rng-outcome-enumerated"]
    }
}

impl C09 {
    pub fn own_generate(&self, seed: u64, run: u64, tier: Tier, _avoid: &BTreeSet<String>) -> MacCase {
        let mut r = Rng::new(run_seed(seed, "C09", run));
        let mut cfg = gen_cfg(&mut r, &CfgProfile { frontends: ALL_FRONTENDS, otaa_pct: 50, boundary_counters_pct: 0, join_bias_pct: 60 });
        maybe_phy(&mut r, &mut cfg, 1, 6);
        let mut ops = Vec::new();
        let ups = rr::uplink_drs(cfg.region);
        let wild_pct = *r.pick(&[0u64, 20, 50]);
        let template = r.below(10);
        if cfg.phy.is_some() && r.chance(1, 2) {
            // full stack: sweep the network-commanded TX power levels through the real PA code of the chip driver
            cfg.otaa = false;
            let (ctl, mask) = if cfg.region.is_fixed() { (6u8, 0x00FFu16) } else { (0u8, (1u16 << rr::default_channels(cfg.region).len()) - 1) };
            let n = r.range(1, 4);
            for _ in 0..n {
                let mut t = Txn::default();
                let pow = r.below(rr::max_tx_power_index(cfg.region) as u64 + 1) as u8;
                t.rx1.push(FrameSpec::Data(frame_with_macs(vec![MacSpec::LinkAdr { dr: 15, pow, mask, ctl, nbtrans: 1 }], false)));
                ops.push(Op::Send { port: 1, len: 1, confirmed: false, txn: t });
                ops.push(Op::Send { port: 2, len: 1, confirmed: false, txn: Txn::default() });
            }
        } else if template == 0 && cfg.region.is_fixed() {
            // ADR back-off across the bandwidth classes of a fixed plan
            cfg.otaa = false;
            let top = *ups.last().unwrap();
            ops.push(Op::SetDr(top));
            let mut t = Txn::default();
            let ctl = *r.pick(&[7u8, 7, 6, 4, 5]);
            t.rx1.push(FrameSpec::Data(frame_with_macs(vec![MacSpec::LinkAdr { dr: 15, pow: 15, mask: *r.pick(&[0x00FFu16, 0x0001, 0x0003, 0xFFFF]), ctl, nbtrans: 1 }], false)));
            ops.push(Op::Send { port: 1, len: 1, confirmed: false, txn: t });
            let n = r.range(100, 170);
            for _ in 0..n {
                ops.push(Op::Send { port: 1, len: 1, confirmed: false, txn: Txn::default() });
            }
        } else {
            if cfg.otaa {
                if r.chance(1, 3) {
                    // the application (or an earlier session) left a non-default data rate in force at join time
                    ops.push(Op::SetDr(if r.chance(1, 2) { *ups.last().unwrap() } else { *r.pick(&ups) }));
                }
                let failed = if r.chance(1, 3) { if r.chance(1, 5) { r.range(20, 80) } else { r.range(1, 12) } } else { 0 };
                // abandoned join attempts inside a long unanswered walk over the join channels (async front-ends): the
                // application gives up waiting at one of the first waits of some attempts, then keeps trying
                let abandon = cfg.frontend != Frontend::Nb && r.chance(1, 4);
                let failed = if abandon && cfg.region.is_fixed() && r.chance(1, 2) { r.range(70, 170) } else { failed };
                for i in 0..failed {
                    let mut t = Txn::default();
                    if abandon && (i < 24 || r.chance(1, 10)) && r.chance(1, 5) {
                        t.cancel_at = Some(*r.pick(&[0u16, 0, 1, 2, 3, 5]));
                    }
                    ops.push(Op::Join(t));
                }
                let mut t = Txn::default();
                let ja = if r.chance(1, 3) { gen_ja(&mut r, cfg.region, true) } else { gen_ja_valid(&mut r, cfg.region) };
                if r.chance(1, 2) {
                    t.rx1.push(FrameSpec::JoinAccept(ja));
                } else {
                    t.rx2.push(FrameSpec::JoinAccept(ja));
                }
                ops.push(Op::Join(t));
            }
            let n = r.range(3, 16);
            for _ in 0..n {
                match r.below(12) {
                    0 | 1 => ops.push(Op::SetDr(*r.pick(&ups))),
                    2 if cfg.otaa => {
                        let mut t = Txn::default();
                        if r.chance(3, 4) {
                            t.rx1.push(FrameSpec::JoinAccept(gen_ja_valid(&mut r, cfg.region)));
                        }
                        ops.push(Op::Join(t));
                    }
                    _ => {
                        let mut t = Txn::default();
                        if r.chance(3, 5) {
                            let f = gen_frame(&mut r, &cfg, wild_pct);
                            if r.chance(1, 2) {
                                t.rx1.push(f);
                            } else {
                                t.rx2.push(f);
                            }
                        }
                        ops.push(Op::Send { port: r.range(1, 223) as u8, len: send_len(&mut r), confirmed: r.chance(1, 4), txn: t });
                    }
                }
            }
            // make sure the history ends with a transmission (the one whose RNG outcomes are enumerated)
            ops.push(Op::Send { port: 9, len: 1, confirmed: false, txn: Txn::default() });
        }
        // "every random stream": in one run in six the RNG hands out the same number many times in a row during a
        // few of the transmissions (it recovers afterwards, so that every retry loop can still end)
        if r.chance(1, 6) {
            for op in ops.iter_mut() {
                if let Op::Send { txn, .. } | Op::Join(txn) = op {
                    if r.chance(1, 3) {
                        txn.rng_stuck = Some(gen_rng_stuck(&mut r));
                    }
                }
            }
        }
        let expand = match tier {
            Tier::Thorough => true,
            Tier::Quick => run % 8 == 0,
        };
        MacCase { cfg, ops, knob: expand as u64 }
    }
}
