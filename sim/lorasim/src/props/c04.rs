//! C04 — no received frame or network command can panic or hang the device, and it can
//! still transmit afterwards.

use super::*;
use crate::exec::*;
use crate::gen::*;
use crate::script::*;
use simcore::*;
use std::collections::BTreeSet;

pub struct C04;

struct Mon {
    region: RegionId,
}

fn panic_violation(rec: &OpRecord, w: &World, phase: &str) -> Option<Violation> {
    match &rec.result {
        OpResult::Panic { msg, loc } => {
            // invariant id carries the panic site so that minimisation cannot morph one panic into another
            let site = loc.rsplit('/').next().unwrap_or(loc);
            let site = site.rsplitn(2, ':').last().unwrap_or(site); // drop the column
            let e = w.env.borrow();
            // what did the device last hear / do?
            let last = e.delivered.last().map(|d| format!("{} frame ({}B, {}) in {:?}", d.spec_kind, d.bytes.len(), d.verdict.short(), d.win)).unwrap_or_else(|| "no frame".into());
            Some(Violation::new(
                &format!("C04.panic@{site}"),
                "",
                format!("{phase}: `{}` panicked at {loc}: {msg}; last delivery: {last}", rec.op.kind()),
            ))
        }
        OpResult::Livelock => {
            let e = w.env.borrow();
            Some(Violation::new(
                "C04.livelock",
                if e.cfg.region.is_fixed() { "fixed-plan" } else { "dynamic-plan" },
                format!("{phase}: `{}` drew more than {} random numbers without returning (channel selection cannot terminate)", rec.op.kind(), crate::world::DRAW_BUDGET),
            ))
        }
        _ => None,
    }
}

impl Monitor for Mon {
    fn after_op(&mut self, w: &mut World, rec: &OpRecord, stats: &mut RunStats) -> Option<Violation> {
        if let Some((_, detail, msg)) = take_stack_alert(w, &["hang"]) {
            return Some(Violation::new("C04.chip-hang", &detail, format!("full stack (real lora-phy on a simulated chip): {msg}")));
        }
        stats.nontrivial = true;
        if !rec.result.is_panic() {
            if let Some(s) = w.dut.snapshot() {
                stats.states.push(s.config_hash());
            }
        }
        let _ = self.region;
        panic_violation(rec, w, "during the history")
    }

    fn at_end(&mut self, w: &mut World, stats: &mut RunStats) -> Option<Violation> {
        // faults have stopped; the device must still be able to hand a frame to the radio
        let base = w.records.len();
        for k in 0..3 {
            let joined = w.dut.is_joined();
            let op = if joined { Op::Send { port: 1, len: 1, confirmed: false, txn: Txn::default() } } else { Op::Join(Txn::default()) };
            let rec = w.step(base + k, &op);
            if let Some(v) = panic_violation(&rec, w, "transmit probe after the history") {
                return Some(v);
            }
            let mut txs = tx_events(w, &rec);
            let mut rec = rec;
            if txs.is_empty() && rec.result == OpResult::TooLarge {
                // The device found no room for the one byte (queued MAC answers at a data rate with a small frame):
                // "can still transmit" does not promise room for application data - a frame without payload, which
                // flushes the answers, must go out.
                stats.bump("probe.probe-payload-refused-empty-frame-sent");
                for (j, port) in [1u8, 0].into_iter().enumerate() {
                    let op = Op::Send { port, len: 0, confirmed: false, txn: Txn::default() };
                    rec = w.step(base + 3 + 2 * k + j, &op);
                    if let Some(v) = panic_violation(&rec, w, "transmit probe after the history") {
                        return Some(v);
                    }
                    txs = tx_events(w, &rec);
                    if !txs.is_empty() {
                        break;
                    }
                }
            }
            if txs.is_empty() {
                if rec.result == OpResult::SessionExpired {
                    // nothing left to transmit in this session; a re-join must work
                    stats.bump("probe.probe-at-expired-session");
                    continue;
                }
                return Some(Violation::new(
                    "C04.cannot-transmit-after",
                    &format!("{:?}", rec.result),
                    format!("after the history a {} did not hand any frame to the radio (result {:?})", if joined { "send" } else { "join" }, rec.result),
                ));
            }
            stats.bump("probe.transmit-probe-ok");
        }
        None
    }
}

#[derive(Clone)]
pub enum Sweep {
    Mac(MacSpec),
    Ja { dl_settings: u8, rx_delay: u8, cflist: Option<Vec<u8>> },
}

fn f24(freq_raw: u32) -> [u8; 3] {
    [freq_raw as u8, (freq_raw >> 8) as u8, (freq_raw >> 16) as u8]
}

fn freq_classes(region: RegionId) -> Vec<u32> {
    let (lo, hi) = crate::refregion::band(region);
    vec![0, (lo + (hi - lo) / 2) / 100, lo / 100, hi / 100, lo / 100 - 1, hi / 100 + 1, 1, 0xFF_FFFF]
}

pub fn sweep_items(region: RegionId) -> Vec<Sweep> {
    let mut v = Vec::new();
    let fcs = freq_classes(region);
    // LinkADRReq: every DR x TXPower; every ChMaskCntl x mask pattern; NbTrans
    for dr in 0..16u8 {
        for pow in 0..16u8 {
            v.push(Sweep::Mac(MacSpec::LinkAdr { dr, pow, mask: 0x0007, ctl: 0, nbtrans: 1 }));
        }
    }
    for ctl in 0..8u8 {
        for mask in [0u16, 1, 2, 0x8000, 0x00FF, 0xFF00, 0xFFFF, 0x0100, 0xA5A5] {
            for dr in [15u8, 0, 4] {
                v.push(Sweep::Mac(MacSpec::LinkAdr { dr, pow: 15, mask, ctl, nbtrans: 0 }));
            }
        }
    }
    // RXParamSetupReq: all 256 DLSettings x frequency classes
    for dl in 0..=255u8 {
        for (i, f) in fcs.iter().enumerate() {
            if i < 4 || dl % 16 == 0 {
                v.push(Sweep::Mac(MacSpec::RxParamSetup { rx1off: (dl >> 4) & 7, rx2dr: dl & 0x0f, freq: *f }));
            }
        }
    }
    // RXTimingSetupReq, TXParamSetupReq, DutyCycleReq: 0..255
    for x in 0..=255u8 {
        v.push(Sweep::Mac(MacSpec::RxTimingSetup { del: x }));
        v.push(Sweep::Mac(MacSpec::TxParamSetup { v: x }));
        v.push(Sweep::Mac(MacSpec::DutyCycle { v: x }));
    }
    // NewChannelReq / DlChannelReq: index 0..255 x frequency classes x DrRange bytes
    for idx in 0..=255u8 {
        for (i, f) in fcs.iter().enumerate() {
            if idx < 18 || i < 2 {
                v.push(Sweep::Mac(MacSpec::NewChannel { idx, freq: *f, drrange: 0x50 }));
                v.push(Sweep::Mac(MacSpec::DlChannel { idx, freq: *f }));
            }
        }
    }
    for dr in 0..=255u8 {
        v.push(Sweep::Mac(MacSpec::NewChannel { idx: 3, freq: fcs[1], drrange: dr }));
    }
    // unknown CIDs and truncated commands
    for cid in 0..=255u8 {
        for len in [0usize, 1, 3] {
            let mut b = vec![cid];
            b.extend(std::iter::repeat(0x11).take(len));
            v.push(Sweep::Mac(MacSpec::Raw(b)));
        }
    }
    // JoinAccept: every DLSettings byte, RxDelay 0..15 (+ RFU high bits), CFList type 0/1/RFU x patterns
    for dl in 0..=255u8 {
        v.push(Sweep::Ja { dl_settings: dl, rx_delay: 0, cflist: None });
    }
    for rd in (0..16u8).chain([0x10, 0x80, 0xFF]) {
        v.push(Sweep::Ja { dl_settings: 0, rx_delay: rd, cflist: None });
    }
    for t in [0u8, 1, 2, 0xFF] {
        for pat in 0..8u8 {
            let mut c = vec![0u8; 16];
            match (t, pat) {
                (0, p) => {
                    for i in 0..5 {
                        let f = f24(fcs[(p as usize + i) % fcs.len()]);
                        c[3 * i..3 * i + 3].copy_from_slice(&f);
                    }
                }
                (_, 0) => {}
                (_, 1) => c[..9].fill(0xFF),
                (_, 2) => c[0] = 1,
                (_, 3) => c[8] = 1,
                (_, 4) => c[8] = 0xFF,
                (_, 5) => c[..15].fill(0xFF),
                (_, 6) => {
                    c[0] = 0x03;
                }
                (_, _) => {
                    for (i, b) in c.iter_mut().enumerate().take(15) {
                        *b = (i as u8).wrapping_mul(37) ^ 0x5A;
                    }
                }
            }
            c[15] = t;
            v.push(Sweep::Ja { dl_settings: 0, rx_delay: 0, cflist: Some(c) });
        }
    }
    v
}

const FES: [Frontend; 3] = [Frontend::Nb, Frontend::Async, Frontend::AsyncC];

pub fn sweep_case(run: u64) -> Option<MacCase> {
    // the item list length depends on nothing but the region's band (same count for every region)
    let n_items = sweep_items(RegionId::EU868).len() as u64;
    let total = n_items * 9 * 3;
    if run >= total {
        return None;
    }
    let item_idx = (run % n_items) as usize;
    let region = ALL_REGIONS[((run / n_items) % 9) as usize];
    let fe = FES[((run / (n_items * 9)) % 3) as usize];
    let item = sweep_items(region)[item_idx].clone();
    let mut cfg = WorldCfg::simple(region, fe);
    cfg.key_seed = 77 + run;
    cfg.dev_seed = 99 + run;
    cfg.board = (run % 4) as u8;
    let mut ops = Vec::new();
    match item {
        Sweep::Mac(m) => {
            let d = frame_with_macs(vec![m], run % 5 == 0);
            let mut t = Txn::default();
            if run % 2 == 0 {
                t.rx1.push(FrameSpec::Data(d));
            } else {
                t.rx2.push(FrameSpec::Data(d));
            }
            ops.push(Op::Send { port: 1, len: 2, confirmed: false, txn: t });
            ops.push(Op::Send { port: 2, len: 1, confirmed: true, txn: Txn::default() });
        }
        Sweep::Ja { dl_settings, rx_delay, cflist } => {
            cfg.otaa = true;
            if region.is_fixed() && run % 3 == 0 {
                cfg.join_bias = Some((((run / 3) % 8) as u8 + 1, 2));
            }
            let mut t = Txn::default();
            let ja = JaSpec { join_nonce: 0x010203, net_id: 0x13, devaddr: 0x2601_1234, dl_settings, rx_delay, cflist, tamper: Tamper::None };
            if run % 2 == 0 {
                t.rx1.push(FrameSpec::JoinAccept(ja));
            } else {
                t.rx2.push(FrameSpec::JoinAccept(ja));
            }
            ops.push(Op::Join(t));
            ops.push(Op::Send { port: 1, len: 2, confirmed: false, txn: Txn::default() });
            ops.push(Op::Send { port: 1, len: 2, confirmed: true, txn: Txn::default() });
        }
    }
    Some(MacCase { cfg, ops, knob: 0 })
}

fn gen_any_frame(r: &mut Rng, cfg: &WorldCfg, avoid: &BTreeSet<String>) -> FrameSpec {
    match r.below(16) {
        0..=6 => {
            // authentic downlink carrying MAC commands with arbitrary field values
            let k = if r.chance(1, 5) { r.range(5, 10) } else { r.range(1, 4) } as usize;
            let macs: Vec<MacSpec> = if r.chance(1, 6) { gen_answer_heavy(r, cfg.region) } else { (0..k).map(|_| gen_mac(r, cfg.region)).collect() };
            let mut d = frame_with_macs(macs, r.chance(1, 5));
            d.confirmed = r.chance(1, 4);
            if d.body == Body::None && r.chance(1, 3) {
                d.body = Body::Data { port: r.range(1, 223) as u8, len: r.range(0, 20) as u8 };
            }
            FrameSpec::Data(d)
        }
        7 => FrameSpec::JoinAccept(gen_ja(r, cfg.region, true)),
        8 => {
            // oversize for some window
            if avoid.contains("oversize") {
                return frame_ok(r);
            }
            let mut d = DataSpec::plain(1);
            d.body = Body::Data { port: 1, len: *r.pick(&[12u8, 52, 54, 60, 120, 130, 200, 242]) };
            if r.chance(1, 3) {
                d.tamper = Tamper::ZeroMic;
            }
            FrameSpec::Data(d)
        }
        9 => {
            let n = r.range(0, 255) as usize;
            FrameSpec::Raw(r.bytes(n))
        }
        10 | 11 => frame_ok(r),
        12 => {
            // authentic but with an out-of-range header field (FOptsLen beyond the frame, RFU bits, other MType ...)
            let mut d = if r.chance(1, 2) { DataSpec::plain(1) } else { frame_with_macs((0..r.range(0, 3)).map(|_| gen_mac(r, cfg.region)).collect(), false) };
            if r.chance(1, 2) {
                d.body = Body::Data { port: r.range(0, 255) as u8, len: r.range(0, 4) as u8 };
            }
            let offset = if r.chance(2, 3) { *r.pick(&[0u8, 5, 5, 5, 8]) } else { r.below(16) as u8 };
            let xor = if r.chance(1, 2) { 1u8 << r.below(8) } else { r.range(1, 255) as u8 };
            d.tamper = Tamper::Resigned { offset, xor };
            FrameSpec::Data(d)
        }
        _ => frame_rejected(r),
    }
}

impl Property for C04 {
    type Case = MacCase;
    fn id(&self) -> &'static str {
        "C04"
    }
    fn level(&self) -> &'static str {
        "exploration"
    }
    fn rule(&self) -> String {
        "First the field sweep: one history per (item, region, front-end) where item walks every value of every field of every handled MAC command (LinkADRReq DR x TXPower, ChMaskCntl x mask patterns; RXParamSetupReq all 256 DLSettings x frequency classes {0, mid band, band edges, edge +-100 Hz, 1, 0xFFFFFF}; RXTimingSetupReq / TXParamSetupReq / DutyCycleReq 0..255; NewChannelReq / DlChannelReq index 0..255 x frequency classes, all 256 DrRange bytes; every CID with 0/1/3 payload bytes) and of the JoinAccept (all 256 DLSettings, RxDelay 0..15 + RFU bits, CFList type 0/1/RFU x 8 patterns) - complete in the thorough tier, the first N indices in the quick tier; the remaining runs are seeded random histories (OTAA and ABP, 9 regions, nb / async / async+Class C, join bias) mixing sends, joins, idle RXC listening, data-rate overrides and every kind of received frame (random bytes, mutated / replayed / foreign frames, oversize frames, authentic downlinks and JoinAccepts with arbitrary field values). Every run ends with a transmit probe under three RNG streams. Non-trivial: at least one operation executed; distinct = trace-shape hash."
            .into()
    }
    fn assumptions(&self) -> Vec<String> {
        vec![
            "application calls stay in the documented domain (fport 1..=223, payload within the regional maximum, set_datarate only to region-defined rates)".into(),
            "a hang that draws no random numbers is caught only by the wall-clock watchdog (reported unminimised)".into(),
            "radio errors are not injected by this property's own generator (the statement is about received frames and commands); they reach this oracle through the histories borrowed from C06 / C05".into(),
            "the application may abandon join() / send() (drop the future) at any of its waits - a sequence of application calls like any other; with the stub radio a radio call has taken effect when its wait is abandoned, a receive window or timer wait is abandoned before anything happened; in full-stack runs the future is dropped while the real driver waits for TxDone / in the window".into(),
        ]
    }
    fn components(&self) -> serde_json::Value {
        crate::components_mac()
    }
    fn coverage_extra(&self, tier: Tier, runs: u64) -> serde_json::Value {
        serde_json::json!({ "bounded_depth_enumeration": super::enum_coverage(tier, runs) })
    }
    fn budget(&self, tier: Tier) -> u64 {
        match tier {
            Tier::Quick => 1_500_000,
            Tier::Thorough => 12_000_000,
        }
    }
    fn generate(&self, seed: u64, run: u64, tier: Tier, avoid: &BTreeSet<String>) -> MacCase {
        // one run in five borrows another property"s generator (same case type), so that this oracle also
        // judges histories of shapes its own generator does not produce
        if let Some(c) = super::cross_generate("C04", &["C05", "C06", "C07", "C08", "C09", "C10", "C11", "C12"], seed, run, tier, avoid) {
            return c;
        }
        // bounded-depth enumeration over the event alphabet
        if let Some(c) = super::enum_generate("C04", run, tier) {
            return c;
        }
        self.own_generate(seed, run, tier, avoid)
    }
    fn execute(&self, case: &MacCase, want_trace: bool) -> Outcome {
        let mut mon = Mon { region: case.cfg.region };
        let out = run_case(case, &mut mon, want_trace);
        Outcome { violation: out.violation, stats: out.stats, trace: out.trace }
    }
    fn self_test(&self) -> Result<(), String> {
        crate::self_test_refs()
    }
    fn expected_probes(&self, _tier: Tier) -> Vec<&'static str> {
        vec!["probe.transmit-probe-ok"]
    }
}

impl C04 {
    pub fn own_generate(&self, seed: u64, run: u64, tier: Tier, avoid: &BTreeSet<String>) -> MacCase {
        // quick tier: a seeded sample of the sweep (every 3rd index) then random; thorough: the whole sweep
        let sweep_run = match tier {
            Tier::Thorough => Some(run),
            Tier::Quick => {
                if run < 120_000 {
                    Some(run.wrapping_mul(2_654_435_761) % (sweep_items(RegionId::EU868).len() as u64 * 27))
                } else {
                    None
                }
            }
        };
        if let Some(sr) = sweep_run {
            if let Some(c) = sweep_case(sr) {
                return c;
            }
        }
        let mut r = Rng::new(run_seed(seed, "C04", run));
        let mut cfg = gen_cfg(&mut r, &CfgProfile { frontends: ALL_FRONTENDS, otaa_pct: 50, boundary_counters_pct: 20, join_bias_pct: 50 });
        maybe_phy(&mut r, &mut cfg, 1, 10);
        if r.chance(1, 10) {
            // a device built with a radio buffer smaller than the largest frame
            cfg.small_buffer = true;
            cfg.board = 0;
        }
        if cfg.phy.is_none() && !cfg.small_buffer && r.chance(1, 12) {
            // an uplink-only application: downlink queue of depth 0
            cfg.dl_queue0 = true;
            cfg.lazy_app = false;
            cfg.board = 0;
        }
        let n = r.range(2, 14) as usize;
        let mut ops = Vec::new();
        let gen_txn = |r: &mut Rng, cfg: &WorldCfg, join: bool| {
            let mut t = Txn::default();
            t.tx_ms = *r.pick(&[0u32, 0, 200]);
            let per = if cfg.frontend == Frontend::Nb { 3 } else { 1 };
            for win in 0..2 {
                if r.chance(3, 5) {
                    let k = r.range(1, per);
                    for _ in 0..k {
                        let f = if join && r.chance(2, 3) { FrameSpec::JoinAccept(gen_ja(r, cfg.region, true)) } else { gen_any_frame(r, cfg, avoid) };
                        if win == 0 {
                            t.rx1.push(f)
                        } else {
                            t.rx2.push(f)
                        }
                    }
                }
            }
            if cfg.frontend == Frontend::AsyncC {
                for gap in 0..2 {
                    if r.chance(1, 3) {
                        let f = gen_any_frame(r, cfg, avoid);
                        if gap == 0 {
                            t.gap1.push(f)
                        } else {
                            t.gap2.push(f)
                        }
                    }
                }
            }
            if cfg.frontend != Frontend::Nb && r.chance(1, 6) {
                // the application abandons the operation (drops the future) at one of its waits
                t.cancel_at = Some(r.below(14) as u16);
            }
            t.nb_deferred_tx = cfg.frontend == Frontend::Nb && r.chance(1, 4);
            if cfg.frontend == Frontend::Nb && r.chance(1, 8) {
                t.nb_intrude = (r.range(1, 3) as u8) | ((r.below(3) as u8) << 2);
            }
            t
        };
        if cfg.otaa && r.chance(1, 25) {
            // a long run of join attempts that nobody answers (the join-channel walk of the fixed plans)
            for _ in 0..r.range(20, 90) {
                ops.push(Op::Join(Txn::default()));
            }
        }
        if cfg.otaa {
            let mut t = gen_txn(&mut r, &cfg, true);
            if r.chance(2, 3) {
                let wild = r.chance(1, 2);
                t.rx1.insert(0, FrameSpec::JoinAccept(gen_ja(&mut r, cfg.region, wild)));
            }
            ops.push(Op::Join(t));
        }
        let drs: Vec<u8> = crate::refregion::datarates(cfg.region)
            .iter()
            .enumerate()
            .filter(|(i, d)| d.is_some() && !(cfg.region == RegionId::EU868 && *i == 6))
            .map(|(i, _)| i as u8)
            .collect();
        for _ in 0..n {
            match r.below(14) {
                0 if cfg.otaa => ops.push(Op::Join(gen_txn(&mut r, &cfg, true))),
                1 if cfg.frontend == Frontend::AsyncC => {
                    let k = r.range(1, 3);
                    ops.push(Op::Listen { frames: (0..k).map(|_| gen_any_frame(&mut r, &cfg, avoid)).collect(), fault: None });
                }
                2 => ops.push(Op::SetDr(*r.pick(&drs))),
                3 => ops.push(Op::SetAdr(r.chance(1, 2))),
                _ => {
                    let mut txn = gen_txn(&mut r, &cfg, false);
                    if r.chance(1, 30) {
                        txn.rng_stuck = Some(gen_rng_stuck(&mut r));
                    }
                    ops.push(Op::Send { port: r.range(1, 223) as u8, len: send_len_or_max(&mut r), confirmed: r.chance(1, 3), txn });
                }
            }
        }
        MacCase { cfg, ops, knob: 0 }
    }
}
