//! One module per claimed property: generator profile + monitors (oracles).

use crate::exec::{OpRecord, World};
use crate::world::{Ev, Rf};

pub mod c06;
pub mod c07;
pub mod c08;
pub mod c09;
pub mod c10;
pub mod c11;
pub mod c12;
pub mod c20;

/// A frame handed to the radio (recorded at call time, whether or not the call then failed).
#[derive(Clone, Debug)]
pub struct TxObs {
    pub pw: i8,
    pub rf: Rf,
    pub bytes: Vec<u8>,
    pub ok: bool,
    pub at: usize,
}

pub fn tx_events(w: &World, rec: &OpRecord) -> Vec<TxObs> {
    let e = w.env.borrow();
    let mut v = Vec::new();
    for (i, ev) in e.trace[rec.trace_lo..rec.trace_hi].iter().enumerate() {
        match ev {
            Ev::Tx { pw, rf, bytes, ok, .. } => v.push(TxObs { pw: *pw, rf: *rf, bytes: bytes.clone(), ok: *ok, at: rec.trace_lo + i }),
            Ev::NbTxRequest { pw, rf, bytes, outcome, .. } => v.push(TxObs { pw: *pw, rf: *rf, bytes: bytes.clone(), ok: outcome.starts_with("Tx"), at: rec.trace_lo + i }),
            _ => {}
        }
    }
    v
}

pub fn hex(b: &[u8]) -> String {
    b.iter().map(|x| format!("{x:02x}")).collect()
}

pub mod c04;
pub mod c05;

use crate::dut::OpResult;
use crate::world::{RespCode, Win};

/// What the device visibly did with one delivered frame.
#[derive(Clone, Debug, PartialEq, Eq)]
pub enum Reaction {
    /// acted on it, reporting counter n
    Accepted(u32),
    /// reported session expiry in direct answer to the frame (uplink counter space exhausted):
    /// the frame was acted upon, or (oversize) it ended the procedure
    Expired,
    /// reported "no update" / kept going
    Rejected,
    /// the receive procedure ended as if it had timed out (RxComplete / NoAck)
    EndedAsTimeout,
    /// not observable per frame (Class C between windows) or cut short by an injected radio error
    Unknown,
}

/// Infer the per-frame reactions of one operation from its trace.
pub fn reactions(w: &World, rec: &OpRecord) -> Vec<Reaction> {
    let e = w.env.borrow();
    let mut out = Vec::new();
    let dels = &e.delivered[rec.del_lo..rec.del_hi];
    // Listen: results come in order of acceptance
    let mut listen_results: Vec<OpResult> = match &rec.result {
        OpResult::Listened(v) => v.clone(),
        _ => vec![],
    };
    for d in dels {
        let tail = &e.trace[d.at + 1..rec.trace_hi];
        let r = match (e.cfg.frontend, d.win) {
            (crate::script::Frontend::Nb, _) => {
                let code = tail.iter().find_map(|ev| match ev {
                    Ev::NbEvent { ev, code, .. } if ev.starts_with("Radio(FrameReady)") => Some(*code),
                    _ => None,
                });
                match code {
                    Some(RespCode::Downlink(n)) => Reaction::Accepted(n),
                    Some(RespCode::SessionExpired) => Reaction::Expired,
                    Some(RespCode::NoUpdate) => Reaction::Rejected,
                    Some(RespCode::RxComplete) | Some(RespCode::NoAck) => Reaction::EndedAsTimeout,
                    Some(RespCode::JoinSuccess) => Reaction::Accepted(0),
                    _ => Reaction::Unknown,
                }
            }
            (_, Win::Rx1) | (_, Win::Rx2) => {
                let later_rx_single = tail.iter().filter(|ev| matches!(ev, Ev::RxSingle { .. })).count() > 1;
                if later_rx_single {
                    Reaction::Rejected
                } else {
                    match &rec.result {
                        OpResult::Downlink(n) => Reaction::Accepted(*n),
                        OpResult::JoinSuccess => Reaction::Accepted(0),
                        // in RX2 a session expiry may just as well come from closing the procedure, and after an
                        // injected radio error from the error path that accounts for the uplink
                        OpResult::SessionExpired => {
                            if d.win == Win::Rx1 && !tail.iter().any(|ev| matches!(ev, Ev::Fault { .. })) {
                                Reaction::Expired
                            } else {
                                Reaction::Unknown
                            }
                        }
                        OpResult::RxComplete | OpResult::NoAck | OpResult::NoJoinAccept => {
                            if d.win == Win::Rx1 {
                                Reaction::EndedAsTimeout
                            } else {
                                // in RX2 "rejected" and "ended as timeout" are the same observable
                                Reaction::Rejected
                            }
                        }
                        _ => Reaction::Unknown,
                    }
                }
            }
            (_, Win::Idle) => {
                // a frame the reference accepts must be the next listen result
                match &d.verdict {
                    crate::world::Verdict::Accept { n, .. } => {
                        if let Some(pos) = listen_results.iter().position(|r| matches!(r, OpResult::Downlink(m) if m == n)) {
                            listen_results.remove(pos);
                            Reaction::Accepted(*n)
                        } else if let Some(pos) = listen_results.iter().position(|r| *r == OpResult::SessionExpired) {
                            listen_results.remove(pos);
                            Reaction::Expired
                        } else {
                            Reaction::Rejected
                        }
                    }
                    _ => Reaction::Unknown,
                }
            }
            _ => Reaction::Unknown,
        };
        out.push(r);
    }
    out
}

use crate::script::MacCase;
use simcore::Tier;
use std::collections::BTreeSet;

/// One run in five of a MAC-world property borrows the generator of another MAC-world property (all use the
/// same case type). The foreign generator is called with a run index far beyond its systematic part.
/// The radio failed before the operation's frame was handed over (a radio call that precedes `tx()`, e.g. a device
/// that first puts the radio to rest): the call ended in the radio error and no frame reached the radio. Whether the
/// device accounts for such an uplink (counter, queued answers, owed ACK) is left open by every statement.
pub fn aborted_before_tx(w: &World, rec: &OpRecord) -> bool {
    // (the call may also end in SessionExpired when accounting for the aborted uplink exhausts the counter space)
    matches!(rec.op, crate::script::Op::Send { .. } | crate::script::Op::Join(_))
        && tx_events(w, rec).is_empty()
        && w.env.borrow().trace[rec.trace_lo..rec.trace_hi].iter().any(|ev| matches!(ev, Ev::Fault { .. }))
}

/// Properties whose oracle judges histories in which the application abandons a `join()` / `send()` half-way.
pub const CANCEL_AWARE: &[&str] = &["C04", "C09", "C10"];

pub fn cross_generate(own: &str, sources: &[&str], seed: u64, run: u64, tier: Tier, avoid: &BTreeSet<String>) -> Option<MacCase> {
    if run % 5 != 4 || sources.is_empty() {
        return None;
    }
    let src = sources[((run / 5) % sources.len() as u64) as usize];
    let frun = run | (1 << 40);
    // the foreign stream is decorrelated from the foreign property's own batch by mixing in the consumer
    let fseed = simcore::mix(seed, own, 0x5eed);
    let mut c = match src {
        "C04" => c04::C04.own_generate(fseed, frun, tier, avoid),
        "C05" => c05::C05.own_generate(fseed, frun, tier, avoid),
        "C06" => c06::C06.own_generate(fseed, frun, tier, avoid),
        "C07" => c07::C07.own_generate(fseed, frun, tier, avoid),
        "C08" => c08::C08.own_generate(fseed, frun, tier, avoid),
        "C09" => c09::C09.own_generate(fseed, frun, tier, avoid),
        "C10" => c10::C10.own_generate(fseed, frun, tier, avoid),
        "C11" => c11::C11.own_generate(fseed, frun, tier, avoid),
        "C12" => c12::C12.own_generate(fseed, frun, tier, avoid),
        _ => return None,
    };
    // device variants that only the source's own oracle can judge
    c.cfg.dl_queue0 = false;
    // fault kinds that only the source's own oracle can judge: an operation the application abandons half-way
    // (the statements of the other properties do not quantify over cancellations)
    if !CANCEL_AWARE.contains(&own) {
        for op in c.ops.iter_mut() {
            match op {
                crate::script::Op::Join(t) | crate::script::Op::Send { txn: t, .. } => t.cancel_at = None,
                _ => {}
            }
        }
    }
    // `knob` is private to each property (C09: enumerate RNG outcomes)
    c.knob = if own == "C09" && (tier == Tier::Thorough || run % 8 == 0) { 1 } else { 0 };
    Some(c)
}

/// The data rate the application set itself between TX and RX1 of this op (nb front-end fault kind), if the call was made.
pub fn app_set_dr_mid(w: &World, rec: &OpRecord) -> Option<u8> {
    let env = w.env.borrow();
    env.trace[rec.trace_lo..rec.trace_hi].iter().find_map(|e| match e {
        crate::world::Ev::Note(s) => s.strip_prefix("application calls set_datarate(").and_then(|r| r.split(')').next()).and_then(|n| n.parse().ok()),
        _ => None,
    })
}

/// Full-stack configuration: take (remove) the first recorded disagreement of one of the given kinds between what
/// the MAC handed to the radio and what the real driver programmed into the chip.
pub fn take_stack_alert(w: &World, kinds: &[&str]) -> Option<(&'static str, String, String)> {
    let mut e = w.env.borrow_mut();
    let i = e.stack_alerts.iter().position(|a| kinds.contains(&a.0))?;
    Some(e.stack_alerts.remove(i))
}

/// Bounded-depth enumeration over the event alphabet of `gen::enum_case` (quantifiers of C04 / C06: "exhaustive over
/// an event alphabet"): every run whose index is 3 modulo 5 takes the next enumerated history, depth by depth, as far
/// as the tier's budget reaches (quick: depth <= 3, thorough: depth <= 4). The oracle stays the consumer's own.
pub const ENUM_RESIDUE: u64 = 3;

pub fn enum_max_depth(tier: Tier) -> u32 {
    match tier {
        Tier::Quick => 3,
        Tier::Thorough => 4,
    }
}

pub fn enum_generate(own: &str, run: u64, tier: Tier) -> Option<MacCase> {
    if run % 5 != ENUM_RESIDUE {
        return None;
    }
    let mut c = crate::gen::enum_case(run / 5, enum_max_depth(tier))?;
    c.knob = if own == "C09" && (tier == Tier::Thorough || run % 8 == 0) { 1 } else { 0 };
    Some(c)
}

/// What the enumeration covered in a batch of `runs` runs (for the evidence).
pub fn enum_coverage(tier: Tier, runs: u64) -> serde_json::Value {
    // indices 0..n of the enumeration were executed, n = number of run indices < runs that are 3 modulo 5
    let n = if runs > ENUM_RESIDUE { (runs - ENUM_RESIDUE - 1) / 5 + 1 } else { 0 };
    let n = n.min(crate::gen::enum_total(enum_max_depth(tier)));
    serde_json::json!({
        "alphabet": "15 application-level events: send unconfirmed/confirmed into silence; send answered in RX1 / in RX2 / with ACK / by a confirmed downlink / by a frame under a wrong key / by a replay / by MAC commands; Class C reception between the windows (other front-ends: garbage in RX2); idle Class C reception (other front-ends: radio error at call 2); join answered in RX1; join unanswered; radio error at the transmit request; save + power loss + restore",
        "configurations": "9 regions x {nb, async, async + Class C} x {OTAA (starts with a join), ABP at FCntUp 0 / 0xFFFE / 2^32-3}",
        "cases_executed": n,
        "complete_to_depth": crate::gen::enum_complete_depth(n),
        "max_depth_of_tier": enum_max_depth(tier),
    })
}
