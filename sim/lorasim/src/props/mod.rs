//! One module per claimed property: generator profile + monitors (oracles).

use crate::exec::{OpRecord, World};
use crate::world::{Ev, Rf};

pub mod c06;

/// A frame handed to the radio (recorded at call time, whether or not the call then failed).
#[derive(Clone, Debug)]
pub struct TxObs {
    pub pw: i8,
    pub rf: Rf,
    pub bytes: Vec<u8>,
    pub ok: bool,
    pub at: usize,
}

pub fn tx_events(w: &World, rec: &OpRecord) -> Vec<TxObs> {
    let e = w.env.borrow();
    let mut v = Vec::new();
    for (i, ev) in e.trace[rec.trace_lo..rec.trace_hi].iter().enumerate() {
        match ev {
            Ev::Tx { pw, rf, bytes, ok, .. } => v.push(TxObs { pw: *pw, rf: *rf, bytes: bytes.clone(), ok: *ok, at: rec.trace_lo + i }),
            Ev::NbTxRequest { pw, rf, bytes, outcome, .. } => v.push(TxObs { pw: *pw, rf: *rf, bytes: bytes.clone(), ok: outcome != "Err", at: rec.trace_lo + i }),
            _ => {}
        }
    }
    v
}

pub fn hex(b: &[u8]) -> String {
    b.iter().map(|x| format!("{x:02x}")).collect()
}
