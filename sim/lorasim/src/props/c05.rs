//! C05 — a downlink is accepted iff it is authentic and fresh (replay protection).
//!
//! Reference acceptance predicate (independent MIC + window arithmetic) decided at delivery time;
//! the device's reaction is read from its responses, its downlink queue, its stored downlink
//! counter and (for MAC commands) its next uplink.

use super::*;
use crate::exec::*;
use crate::gen::*;
use crate::refcodec as rc;
use crate::refregion as rr;
use crate::script::*;
use crate::world::Verdict;
use simcore::*;
use std::collections::BTreeSet;

pub struct C05;

struct Mon {
    /// counters the device reported as accepted, in order (per session)
    accepted: Vec<u32>,
    /// Some(true/false): the next uplink must / must not carry a DevStatusAns
    expect_devstatus: Option<bool>,
    /// a DevStatusReq accepted in a Class A window is waiting for the next uplink
    class_a_req_pending: bool,
    cur_keys: Option<([u8; 16], [u8; 16], u32)>,
}

/// Some(true): the frame's command stream is exactly one DevStatusReq; Some(false): it contains none;
/// None: a DevStatusReq among other commands (its answer may be crowded out: no expectation).
fn devstatus_req(fopts: &[u8], fport: Option<u8>, plain: &[u8]) -> Option<bool> {
    let stream: &[u8] = if fport == Some(0) { plain } else { fopts };
    let reqs = crate::refmac::parse_downlink_cmds(stream);
    let n = reqs.iter().filter(|r| matches!(r, crate::refmac::Req::DevStatus)).count();
    if n == 0 {
        Some(false)
    } else if reqs.len() == 1 {
        Some(true)
    } else {
        None
    }
}

impl Monitor for Mon {
    fn after_op(&mut self, w: &mut World, rec: &OpRecord, stats: &mut RunStats) -> Option<Violation> {
        if rec.result.is_panic() {
            stats.bump("probe.foreign-panic");
            return None;
        }
        let keys = w.dut.session_keys();
        // A join attempt in which the reference network saw an authentic JoinAccept delivered starts a new session
        // even if its keys coincide with the old ones (two DevNonces alike - an RNG streak left over from an earlier
        // operation - and the recorded JoinAccept sent again): "within a session" is delimited by joins, not by keys.
        let joined_anew = matches!(rec.op, Op::Join(_))
            && w.env.borrow().delivered[rec.del_lo..rec.del_hi].iter().any(|d| matches!(d.verdict, crate::world::Verdict::JoinAccept(_)));
        if keys != self.cur_keys || joined_anew {
            self.cur_keys = keys;
            self.accepted.clear();
            self.expect_devstatus = None;
            self.class_a_req_pending = false;
        }
        if aborted_before_tx(w, rec) {
            // the uplink that would have carried the answers never reached the radio: whether the answers went with it
            // is open, so nothing is expected of the next one - and nothing is excluded either (an answer that is still
            // queued must not be blamed on a frame heard in RXC meanwhile: `class_a_req_pending` stays as it is)
            if self.expect_devstatus == Some(true) {
                self.class_a_req_pending = true;
            }
            self.expect_devstatus = None;
            stats.bump("probe.uplink-aborted-before-tx");
        }
        let reacts = reactions(w, rec);
        let dels: Vec<crate::world::Delivered> = w.env.borrow().delivered[rec.del_lo..rec.del_hi].to_vec();
        let fe = w.env.borrow().cfg.frontend;
        let region = w.env.borrow().cfg.region;

        // MAC answers of the previous Class A downlink show up in this uplink
        if let (Op::Send { .. }, Some(want), Some(k)) = (&rec.op, self.expect_devstatus, keys) {
            if let Some(tx) = tx_events(w, rec).first() {
                // the answers travel in FOpts, or in the port-0 FRMPayload when the application sent an empty port-0 uplink
                if let (Some(p), Some(Ok(cmds))) = (rc::parse_data(&tx.bytes), super::c08::uplink_cmds(&tx.bytes, &k, rec.fcnt_up_after)) {
                    let has = cmds.iter().any(|a| a.cid == 0x06);
                    if want && !has {
                        return Some(Violation::new(
                            "C05.classA-mac-not-executed",
                            "",
                            format!("a DevStatusReq accepted in a Class A window was not answered in the next uplink (FOpts {})", hex(&p.fopts)),
                        ));
                    }
                    if !want && has {
                        return Some(Violation::new(
                            "C05.rxc-mac-executed",
                            "",
                            "a DevStatusReq carried by a frame received outside RX1/RX2 (RXC) was executed: the next uplink carries DevStatusAns".to_string(),
                        ));
                    }
                    stats.bump(if want { "probe.classA-mac-answer-seen" } else { "probe.rxc-mac-not-executed" });
                }
                self.expect_devstatus = None;
            }
        }
        if matches!(rec.op, Op::Send { .. }) && !tx_events(w, rec).is_empty() {
            self.class_a_req_pending = false;
        }

        let mut unspecified = false;
        let mut expected_dl: Vec<(u8, Vec<u8>)> = Vec::new();
        let mut any_gap_or_idle = false;
        for (d, r) in dels.iter().zip(reacts.iter()) {
            stats.nontrivial = true;
            let class_a = matches!(d.win, Win::Rx1 | Win::Rx2);
            if !class_a {
                any_gap_or_idle = true;
            }
            if unspecified {
                // a frame the statement is silent about was heard earlier in this operation: the reference can no
                // longer follow the device until it is re-synchronised at the end of the operation
                continue;
            }
            match &d.verdict {
                Verdict::Accept { n, fport, plain, fopts, .. } => {
                    // probes
                    match d.last_before {
                        None => stats.bump("probe.first-downlink-accepted"),
                        Some(l) => {
                            let gap = *n as u64 - l as u64;
                            if gap == 16384 {
                                stats.bump("probe.accepted-at-L+16384");
                            }
                            if (n >> 16) != (l >> 16) {
                                stats.bump("probe.epoch-rollover-accepted");
                            }
                            if *n >= 0xFFFF_FFF0 {
                                stats.bump("probe.accepted-near-2^32");
                            }
                        }
                    }
                    if w.env.borrow().cfg.small_buffer && d.bytes.len() == SMALL_N {
                        stats.bump("probe.frame-fills-small-radio-buffer");
                    }
                    if let Some(rf) = d.rf {
                        if let Some(m) = rr::max_mac_for(region, rf.sf, rf.bw_khz) {
                            if d.bytes.len() == m as usize + 5 {
                                stats.bump("probe.accepted-at-exact-max-size");
                            }
                        }
                    }
                    match r {
                        Reaction::Accepted(m) => {
                            if m != n {
                                return Some(Violation::new(
                                    "C05.wrong-counter",
                                    "",
                                    format!("frame authentic for counter {n} (last accepted {:?}) was reported as counter {m}", d.last_before),
                                ));
                            }
                            if let Some(last) = self.accepted.last() {
                                if m <= last {
                                    return Some(Violation::new("C05.accepted-twice", "", format!("accepted counter {m} after {last}")));
                                }
                            }
                            self.accepted.push(*m);
                        }
                        Reaction::Expired => {}
                        Reaction::Unknown => {}
                        Reaction::Rejected | Reaction::EndedAsTimeout => {
                            return Some(Violation::new(
                                "C05.rejected-authentic-fresh",
                                &format!("{:?}|{:?}", fe, d.win),
                                format!(
                                    "a frame that fits the window ({}B), is authentic under the session key for counter {n} and fresh (last accepted {:?}) was not acted upon ({r:?})",
                                    d.bytes.len(),
                                    d.last_before
                                ),
                            ));
                        }
                    }
                    if let Some(p) = fport {
                        if *p > 0 && !plain.is_empty() {
                            expected_dl.push((*p, plain.clone()));
                        }
                    }
                    match (devstatus_req(fopts, *fport, plain), class_a) {
                        // a Class A downlink replaces whatever was expected before
                        (Some(true), true) => {
                            self.expect_devstatus = Some(true);
                            self.class_a_req_pending = true;
                        }
                        (None, true) => {
                            // a Class A DevStatusReq among other commands: its answer may or may not fit
                            self.expect_devstatus = None;
                            self.class_a_req_pending = true;
                        }
                        (Some(true), false) | (None, false) => {
                            if self.expect_devstatus.is_none() && !self.class_a_req_pending {
                                self.expect_devstatus = Some(false);
                            }
                        }
                        (Some(false), _) => {}
                    }
                }
                Verdict::Reject(why) => {
                    match *why {
                        "counter-not-fresh" => stats.bump("probe.rejected-not-fresh"),
                        "mic" => stats.bump("probe.rejected-mic"),
                        _ => stats.bump("probe.rejected-other"),
                    }
                    if let Reaction::Accepted(m) = r {
                        let inv = if *why == "counter-not-fresh" { "C05.accepted-stale-or-far-future" } else { "C05.accepted-unauthentic" };
                        return Some(Violation::new(
                            inv,
                            why,
                            format!("a frame the reference rejects ({why}; last accepted {:?}) was accepted as counter {m}; frame {}", d.last_before, hex(&d.bytes)),
                        ));
                    }
                    if *r == Reaction::Expired {
                        return Some(Violation::new("C05.accepted-unauthentic", why, format!("a frame the reference rejects ({why}) made the device report session expiry")));
                    }
                }
                Verdict::Oversize => {
                    stats.bump("probe.oversize-delivered");
                    if let Reaction::Accepted(m) = r {
                        return Some(Violation::new(
                            "C05.oversize-accepted",
                            "",
                            format!("a {}B frame, longer than the window's data rate allows, was accepted as counter {m}", d.bytes.len()),
                        ));
                    }
                }
                Verdict::JoinAccept(_) => {}
                Verdict::Unspecified(_) => {
                    unspecified = true;
                    // whatever it carried may or may not be answered
                    self.expect_devstatus = None;
                    self.class_a_req_pending = true;
                }
            }
        }

        // state-level equivalence: the device remembers exactly the counter the reference does
        let ref_last = w.env.borrow().refs.as_ref().map(|s| s.last_down);
        if unspecified {
            // the statement is silent about such a frame: follow the device
            if let (Some(dev), Some(r)) = (rec.fcnt_down_after, w.env.borrow_mut().refs.as_mut()) {
                r.last_down = dev;
            }
            stats.bump("probe.resync-after-unspecified");
            return None;
        }
        if let (Some(dev), Some(rl)) = (rec.fcnt_down_after, ref_last) {
            if dev != rl && !dels.is_empty() {
                let inv = match (dev, rl) {
                    (Some(a), Some(b)) if a < b => "C05.rejected-authentic-fresh",
                    (None, Some(_)) => "C05.rejected-authentic-fresh",
                    _ => "C05.accepted-unauthentic",
                };
                return Some(Violation::new(
                    inv,
                    &format!("state|{:?}|gap-or-idle={any_gap_or_idle}", fe),
                    format!("after the operation the device remembers downlink counter {dev:?}, the reference model {rl:?}"),
                ));
            }
        }
        // delivered payloads: exactly the reference plaintexts (as a multiset; take_downlink pops LIFO)
        let expired = matches!(rec.result, crate::dut::OpResult::SessionExpired)
            || matches!(&rec.result, crate::dut::OpResult::Listened(v) if v.contains(&crate::dut::OpResult::SessionExpired))
            || rec.fcnt_up_after == Some(u32::MAX);
        if expired {
            // the statement does not say what happens to a payload once the uplink counter space is
            // exhausted; acceptance and counters stay checked above
            stats.bump("probe.payload-check-skipped-at-expiry");
        } else if w.env.borrow().cfg.lazy_app {
            // the application leaves downlinks in a one-entry queue: what happens to the overflow is its own business
            stats.bump("probe.payload-check-skipped-lazy-application");
        } else if !matches!(rec.result, crate::dut::OpResult::RadioErr) {
            let mut got: Vec<(u8, Vec<u8>)> = rec.downlinks.iter().filter(|(_, d)| !d.is_empty()).cloned().collect();
            let mut want = expected_dl.clone();
            got.sort();
            want.sort();
            if got != want {
                return Some(Violation::new(
                    "C05.wrong-plaintext",
                    &format!("{:?}", fe),
                    format!("application payloads delivered {:?} differ from the reference plaintexts {:?}", got.iter().map(|(p, d)| (*p, hex(d))).collect::<Vec<_>>(), want.iter().map(|(p, d)| (*p, hex(d))).collect::<Vec<_>>()),
                ));
            }
            if !want.is_empty() {
                stats.bump("probe.payload-compared");
            }
        }
        None
    }
}

fn boundary_delta(r: &mut Rng) -> i64 {
    *r.pick(&[1i64, 1, 1, 2, 3, 100, 16383, 16384, 16385, 0, -1, -2, -16384, 65536, 65537, 65535, 65534, 32768, 49152, 70000])
}

fn gen_frame(r: &mut Rng, region: RegionId) -> FrameSpec {
    match r.below(20) {
        0..=7 => {
            // authentic frame with an interesting counter
            let mut d = DataSpec::plain(if r.chance(1, 2) { 1 } else { boundary_delta(r) });
            d.confirmed = r.chance(1, 4);
            d.ack = r.chance(1, 5);
            d.fpending = r.chance(1, 8);
            match r.below(6) {
                0 => {}
                1 => d.fopts = vec![MacSpec::DevStatus],
                2 => d.body = Body::Port0(vec![MacSpec::DevStatus]),
                _ => d.body = Body::Data { port: r.range(1, 223) as u8, len: r.range(1, 12) as u8 },
            }
            FrameSpec::Data(d)
        }
        8 | 9 => {
            // size boundary: MACPayload = 8 + len, at / just above a regional maximum
            let maxes: Vec<u8> = rr::datarates(region).iter().flatten().map(|d| d.max_mac).collect();
            let m = *r.pick(&maxes) as i64;
            let len = (m - 8 + r.range(-1, 1)).clamp(0, 242) as u8;
            let mut d = DataSpec::plain(1);
            d.body = Body::Data { port: r.range(1, 223) as u8, len };
            FrameSpec::Data(d)
        }
        10 | 11 => FrameSpec::Replay(r.below(32) as u16),
        12 => {
            let mut d = DataSpec::plain(boundary_delta(r));
            d.tamper = Tamper::MicEpoch(*r.pick(&[1i8, -1]));
            d.body = Body::Data { port: 7, len: 3 };
            FrameSpec::Data(d)
        }
        _ => frame_rejected(r),
    }
}

fn gen_txn(r: &mut Rng, cfg: &WorldCfg) -> Txn {
    let mut t = Txn::default();
    t.tx_ms = *r.pick(&[0u32, 0, 100]);
    let fe = cfg.frontend;
    let max_per_window = if fe == Frontend::Nb { 3 } else { 1 };
    for win in 0..2 {
        if r.chance(1, 2) {
            let k = r.range(1, max_per_window);
            for _ in 0..k {
                let f = gen_frame(r, cfg.region);
                if win == 0 {
                    t.rx1.push(f);
                } else {
                    t.rx2.push(f);
                }
            }
        }
    }
    if fe == Frontend::AsyncC {
        for gap in 0..2 {
            if r.chance(2, 5) {
                let k = r.range(1, 3);
                for _ in 0..k {
                    let f = gen_frame(r, cfg.region);
                    if gap == 0 {
                        t.gap1.push(f);
                    } else {
                        t.gap2.push(f);
                    }
                }
            }
        }
    }
    if fe == Frontend::Nb {
        t.nb_deferred_tx = r.chance(1, 4);
    }
    t
}

impl Property for C05 {
    type Case = MacCase;
    fn id(&self) -> &'static str {
        "C05"
    }
    fn level(&self) -> &'static str {
        "exploration"
    }
    fn rule(&self) -> String {
        "Seeded random histories (3-12 operations) over sessions whose last accepted downlink counter starts at None, 0, 0xFFF0, 0xFFFF, 0x10000, 0x3FFFF, 0xFFFFBFFF, 0xFFFFFFFE or 0xFFFFFFFF; every receive opportunity (RX1, RX2, Class C gaps, idle RXC listening; several frames per window on the nb front-end) gets frames whose true 32-bit counter is last+{1,2,3,100,16383,16384,16385,0,-1,-16384,65535,65536,65537,...}, MIC built by the reference codec with the true counter or with the neighbouring epoch, forged frames (bit flips, wrong key, foreign session, truncation), verbatim replays of anything sent earlier, and frames at / one byte over each regional maximum size. A run is non-trivial when at least one frame was delivered; distinct = distinct trace-shape hash."
            .into()
    }
    fn assumptions(&self) -> Vec<String> {
        vec![
            "frames the statement is silent about (own key with another address, reflected uplinks, major version != 0, FOpts together with port 0) are not generated; if one arises the reference follows the device for that operation".into(),
            "an oversize frame may end the receive procedure (C07 clause); only its acceptance is a violation".into(),
            "no radio faults are injected here (C06 covers them); payload comparison ignores empty FRMPayloads".into(),
            "MAC-command execution is observed through a lone DevStatusReq (FOpts or port 0) and the following uplink".into(),
        ]
    }
    fn components(&self) -> serde_json::Value {
        crate::components_mac()
    }
    fn coverage_extra(&self, tier: Tier, runs: u64) -> serde_json::Value {
        serde_json::json!({ "bounded_depth_enumeration": super::enum_coverage(tier, runs) })
    }
    fn budget(&self, tier: Tier) -> u64 {
        match tier {
            Tier::Quick => 2_000_000,
            Tier::Thorough => 30_000_000,
        }
    }
    fn generate(&self, seed: u64, run: u64, tier: Tier, avoid: &BTreeSet<String>) -> MacCase {
        // one run in five borrows another property"s generator (same case type), so that this oracle also
        // judges histories of shapes its own generator does not produce
        if let Some(c) = super::cross_generate("C05", &["C04", "C07", "C08", "C09", "C10", "C11", "C12"], seed, run, tier, avoid) {
            return c;
        }
        // bounded-depth enumeration over the event alphabet
        if let Some(c) = super::enum_generate("C05", run, tier) {
            return c;
        }
        self.own_generate(seed, run, tier, avoid)
    }
    fn execute(&self, case: &MacCase, want_trace: bool) -> Outcome {
        let mut mon = Mon { accepted: vec![], expect_devstatus: None, class_a_req_pending: false, cur_keys: None };
        let out = run_case(case, &mut mon, want_trace);
        Outcome { violation: out.violation, stats: out.stats, trace: out.trace }
    }
    fn self_test(&self) -> Result<(), String> {
        crate::self_test_refs()?;
        use crate::world::cand_counter;
        let t = |l: Option<u32>, w: u16, want: Option<u32>| if cand_counter(l, w) == want { Ok(()) } else { Err(format!("cand_counter({l:?},{w}) != {want:?}")) };
        t(None, 7, Some(7))?;
        t(Some(5), 6, Some(6))?;
        t(Some(5), 5, None)?;
        t(Some(5), 5 + 16384, Some(5 + 16384))?;
        t(Some(5), 5 + 16385, None)?;
        t(Some(0xFFFF), 0, Some(0x1_0000))?;
        t(Some(0xFFFF_FFFE), 0, None)?;
        t(Some(0xFFFF_FFFE), 0xFFFF, Some(0xFFFF_FFFF))?;
        t(Some(0xFFFF_FFFF), 0, None)?;
        t(Some(0x3_FFFF), 0x3FFF, Some(0x4_3FFF))?;
        t(Some(0x3_FFFF), 0x4000, None)?;
        Ok(())
    }
    fn expected_probes(&self, _tier: Tier) -> Vec<&'static str> {
        vec![
            "probe.first-downlink-accepted",
            "probe.accepted-at-L+16384",
            "probe.epoch-rollover-accepted",
            "probe.accepted-near-2^32",
            "probe.accepted-at-exact-max-size",
            "probe.rejected-not-fresh",
            "probe.rejected-mic",
            "probe.oversize-delivered",
            "probe.payload-compared",
            "probe.classA-mac-answer-seen",
            "probe.rxc-mac-not-executed",
            "probe.frame-fills-small-radio-buffer",
        ]
    }
}

impl C05 {
    pub fn own_generate(&self, seed: u64, run: u64, _tier: Tier, _avoid: &BTreeSet<String>) -> MacCase {
        let mut r = Rng::new(run_seed(seed, "C05", run));
        let mut cfg = gen_cfg(&mut r, &CfgProfile { frontends: ALL_FRONTENDS, otaa_pct: 0, boundary_counters_pct: 75, join_bias_pct: 0 });
        maybe_phy(&mut r, &mut cfg, 1, 10);
        if r.chance(3, 4) {
            cfg.fcnt_up0 = *r.pick(&[0u32, 5, 0xFFFF, 70000]);
        }
        if r.chance(1, 12) {
            // a device whose radio buffer is smaller than the largest frame: frames that exactly fill it
            cfg.small_buffer = true;
            cfg.board = 0;
        }
        let small = cfg.small_buffer;
        let n = r.range(3, 12) as usize;
        let mut ops = Vec::new();
        // vary the data rates the windows are opened at: uplink data rate (RX1 follows it) and,
        // through an authentic RXParamSetupReq, RX1DROffset and the RX2 data rate
        if r.chance(1, 2) {
            ops.push(Op::SetDr(*r.pick(&rr::uplink_drs(cfg.region))));
        }
        if r.chance(1, 3) {
            let defined: Vec<u8> = rr::datarates(cfg.region).iter().enumerate().filter(|(i, d)| d.is_some() && !(cfg.region == RegionId::EU868 && *i == 6)).map(|(i, _)| i as u8).collect();
            let m = MacSpec::RxParamSetup { rx1off: r.below(rr::max_rx1_dr_offset(cfg.region) as u64 + 1) as u8, rx2dr: *r.pick(&defined), freq: freq_in_band(&mut r, cfg.region) };
            let mut t = Txn::default();
            t.rx1.push(FrameSpec::Data(frame_with_macs(vec![m], false)));
            ops.push(Op::Send { port: 1, len: 1, confirmed: false, txn: t });
        }
        for _ in 0..n {
            if cfg.frontend == Frontend::AsyncC && r.chance(1, 4) && !ops.is_empty() {
                let k = r.range(1, 4);
                let frames = (0..k).map(|_| gen_frame(&mut r, cfg.region)).collect();
                ops.push(Op::Listen { frames, fault: None });
            } else {
                let mut txn = gen_txn(&mut r, &cfg);
                if small && r.chance(1, 2) {
                    // PHY payload = 13 + len bytes: N - 1, N, N + 1
                    let len = (SMALL_N as i64 - 13 + r.range(-1, 1)) as u8;
                    let mut d = DataSpec::plain(1);
                    d.body = Body::Data { port: 9, len };
                    let f = FrameSpec::Data(d);
                    if r.chance(1, 2) {
                        txn.rx1 = vec![f];
                    } else {
                        txn.rx2 = vec![f];
                    }
                }
                if r.chance(1, 15) {
                    // a radio error somewhere in the procedure (often at the transmit request itself): whatever is
                    // heard afterwards - in the next windows, or while listening in RXC - is judged as always
                    txn.fault = Some(Fault { pos: *r.pick(&[0u16, 0, 0, 1, 2, 3, 5]), extra: 0 });
                }
                ops.push(Op::Send { port: r.range(1, 223) as u8, len: send_len(&mut r), confirmed: r.chance(1, 3), txn });
            }
        }
        MacCase { cfg, ops, knob: 0 }
    }
}
