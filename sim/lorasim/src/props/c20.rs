//! C20 — a persisted session restores losslessly and never rewinds counters.

use super::*;
use crate::exec::*;
use crate::gen::*;
use crate::script::*;
use simcore::*;
use std::collections::BTreeSet;

pub struct C20;

/// avoid tag of the registered known finding "FCntUp only advances when the receive procedure ends"
pub const TAG_MID_PROCEDURE_CUT: &str = "nb-mid-procedure-power-cut";

fn run_quiet(case: &MacCase) -> (World, RunStats, Option<Violation>) {
    let mut w = World::new(&case.cfg);
    let mut stats = RunStats::default();
    let mut violation = None;
    for (idx, op) in case.ops.iter().enumerate() {
        let rec = w.step(idx, op);
        if let OpResult::Unexpected(msg) = &rec.result {
            if msg.starts_with("roundtrip-") {
                let kind = msg.split(':').next().unwrap_or("roundtrip").to_string();
                violation = Some(Violation::new(if kind == "roundtrip-field" || kind == "roundtrip-text" { "C20.roundtrip-field" } else if kind == "roundtrip-reordered" { "C20.roundtrip-reordered" } else { "C20.roundtrip-refused" }, &kind, format!("operation #{idx}: {msg}")));
                break;
            }
        }
        if let OpResult::Panic { msg, loc } = &rec.result {
            if w.env.borrow().mutated_session || matches!(op, Op::RestoreMutated(_)) {
                let site = loc.rsplit('/').next().unwrap_or(loc);
                let site = site.rsplitn(2, ':').last().unwrap_or(site);
                violation = Some(Violation::new(&format!("C20.malformed-panic@{site}"), "", format!("operation #{idx} ({}) after restoring from a structurally mutated document panicked at {loc}: {msg}", op.kind())));
            } else {
                stats.bump("probe.foreign-panic");
            }
            break;
        }
        if rec.result == OpResult::Livelock {
            break;
        }
    }
    finish(&w, &mut stats);
    (w, stats, violation)
}

/// What must be equal between the original that keeps running and the device restored from storage.
fn compare(case: &MacCase, w1: &World, w2: &World) -> Option<(String, String, &'static str)> {
    let mut ctx: &'static str = "";
    let mut restored = false;
    for (i, (a, b)) in w1.records.iter().zip(w2.records.iter()).enumerate() {
        if matches!(case.ops[i], Op::SaveRestore) {
            restored = true;
            continue;
        }
        if restored && matches!(case.ops[i], Op::Join(_)) {
            // A join after the restore starts a new session. What goes into it besides the stored session (the
            // DevNonce, for instance, may be a counter the device keeps outside the session) is not covered by the
            // statement: the comparison ends here.
            break;
        }
        if a.result == OpResult::PowerCut {
            // the rest of this procedure never happened on the restored device
            ctx = "after-mid-procedure-power-cut";
            continue;
        }
        let ta: Vec<Vec<u8>> = tx_events(w1, a).into_iter().map(|t| t.bytes).collect();
        let tb: Vec<Vec<u8>> = tx_events(w2, b).into_iter().map(|t| t.bytes).collect();
        if ta != tb {
            return Some((
                "C20.restored-uplink-differs".into(),
                format!("operation #{i} ({}): the restored device handed {:?} to the radio, the original that was never power-cycled {:?}", case.ops[i].kind(), ta.iter().map(|b| hex(b)).collect::<Vec<_>>(), tb.iter().map(|b| hex(b)).collect::<Vec<_>>()),
                ctx,
            ));
        }
        if a.result != b.result {
            return Some(("C20.restored-decision-differs".into(), format!("operation #{i} ({}): restored device {:?}, original {:?}", case.ops[i].kind(), a.result, b.result), ctx));
        }
        let mut da = a.downlinks.clone();
        let mut db = b.downlinks.clone();
        da.sort();
        db.sort();
        if da != db {
            return Some(("C20.restored-decision-differs".into(), format!("operation #{i}: delivered downlinks differ between the restored device and the original"), ctx));
        }
        let sa = a.snap_after.as_ref().and_then(|s| s.session.clone());
        let sb = b.snap_after.as_ref().and_then(|s| s.session.clone());
        if sa != sb {
            return Some(("C20.restored-state-differs".into(), format!("operation #{i} ({}): session of the restored device {:?}, of the original {:?}", case.ops[i].kind(), sa, sb), ctx));
        }
    }
    None
}

fn gen_frame(r: &mut Rng, region: RegionId) -> FrameSpec {
    match r.below(10) {
        0..=3 => {
            // authentic, queues answers / owes an ACK; commands that do not move the uplink's radio settings
            let mut macs = Vec::new();
            let full = r.chance(1, 5);
            if full {
                // 13..15 bytes of answers: the pending buffer is (nearly) full when the session is saved
                for _ in 0..4 {
                    macs.push(MacSpec::DevStatus);
                }
                macs.push(MacSpec::RxTimingSetup { del: 3 });
                match r.below(4) {
                    0 | 1 => macs.push(MacSpec::DlChannel { idx: 0, freq: freq_in_band(r, region) }),
                    // 13 bytes queued and a 3-byte answer that no longer fits: the queue is cut short at 13
                    2 => macs.push(MacSpec::DevStatus),
                    _ => {}
                }
            }
            let k = if full { 0 } else { r.below(4) };
            for _ in 0..k {
                macs.push(match r.below(7) {
                    // requests that are refused in every respect: their answers end in a zero status byte
                    5 => MacSpec::NewChannel { idx: 6, freq: 1, drrange: 0xF0 },
                    6 => MacSpec::LinkAdr { dr: 14, pow: 14, mask: 0, ctl: 0, nbtrans: 0 },
                    0 => MacSpec::DevStatus,
                    1 => MacSpec::RxTimingSetup { del: r.below(16) as u8 },
                    2 => MacSpec::RxParamSetup { rx1off: 9 % 8, rx2dr: 15, freq: 1 },
                    3 => MacSpec::LinkAdr { dr: 14, pow: 15, mask: 0, ctl: 0, nbtrans: 0 },
                    _ => MacSpec::DlChannel { idx: 0, freq: freq_in_band(r, region) },
                });
            }
            let mut d = frame_with_macs(macs, r.chance(1, 5));
            d.confirmed = r.chance(1, 2);
            if d.body == Body::None && r.chance(1, 2) {
                d.body = Body::Data { port: r.range(1, 223) as u8, len: r.range(1, 9) as u8 };
            }
            d.fcnt = Fcnt::Rel(*r.pick(&[1i64, 1, 2, 16384, 40]));
            FrameSpec::Data(d)
        }
        4 | 5 => FrameSpec::Replay(r.below(16) as u16),
        6 => FrameSpec::Data(DataSpec { body: Body::Data { port: 2, len: 3 }, ..DataSpec::plain(*r.pick(&[0i64, -1, -3, 16385])) }),
        _ => frame_rejected(r),
    }
}

impl Property for C20 {
    type Case = MacCase;
    fn id(&self) -> &'static str {
        "C20"
    }
    fn level(&self) -> &'static str {
        "exploration"
    }
    fn rule(&self) -> String {
        "Two kinds of seeded runs. (a) Crash/restore twins: a history (ABP with counters at 0 / 0xFFFF / 0x10000 / 2^32-2 and 'no downlink yet', or OTAA; sends, accepted / confirmed / rejected / replayed downlinks that queue one-shot and sticky answers up to the 15-byte limit, Class C receptions) with a save / power-loss / restore-into-a-fresh-device step at 1-4 arbitrary operation boundaries, compared operation by operation with the same history on a device that is never power-cycled (uplink bytes, responses, delivered downlinks, every session field); at each restore the session must equal its pre-image field by field and re-serialise to the same text. (b) Malformed documents: the stored JSON is structurally mutated (dropped / duplicated / renamed / retyped fields, pending_len 0..255, arrays of wrong length, out-of-range integers, nulls, truncated text, counters at their limits with 15 arbitrary pending bytes) before the restore; the document must be refused or the session must stay panic-free through later sends (also with the largest payload of the data rate), receptions, Class C listening and re-serialisation. Non-trivial: a restore took place; distinct = trace-shape hash."
            .into()
    }
    fn assumptions(&self) -> Vec<String> {
        vec![
            "durable state is only the serde_json text of the Session; the MAC configuration (data rate, RX parameters, channel plan) is not part of it, so the application re-applies its data-rate / ADR settings and only uplink bytes, responses, downlinks and session fields are compared".into(),
            "crash points are operation boundaries of the harness (between transactions); a power loss in the middle of a transaction is not modelled".into(),
            "after a mutated document was accepted only panic-freedom is judged".into(),
        ]
    }
    fn components(&self) -> serde_json::Value {
        crate::components_mac()
    }
    fn coverage_extra(&self, tier: Tier, runs: u64) -> serde_json::Value {
        serde_json::json!({ "bounded_depth_enumeration": super::enum_coverage(tier, runs) })
    }
    fn budget(&self, tier: Tier) -> u64 {
        match tier {
            Tier::Quick => 1_500_000,
            Tier::Thorough => 20_000_000,
        }
    }
    fn generate(&self, seed: u64, run: u64, tier: Tier, avoid: &BTreeSet<String>) -> MacCase {
        // bounded-depth enumeration over the event alphabet (save / power loss / restore is one of its letters)
        if let Some(c) = super::enum_generate("C20", run, tier) {
            return c;
        }
        let mut r = Rng::new(run_seed(seed, "C20", run));
        let mut cfg = gen_cfg(&mut r, &CfgProfile { frontends: ALL_FRONTENDS, otaa_pct: 20, boundary_counters_pct: 60, join_bias_pct: 10 });
        let mutation_mode = run % 3 == 0;
        if cfg.fcnt_up0 == u32::MAX && !mutation_mode {
            cfg.fcnt_up0 = 0xFFFF_FFFE;
        }
        let nb = cfg.frontend == Frontend::Nb;
        if nb && !mutation_mode && r.chance(1, 3) {
            cfg.restore_into_used = true;
        }
        let mut ops = Vec::new();
        if cfg.otaa {
            let mut t = Txn::default();
            // settings equal to the regional defaults: the MAC configuration is not part of the
            // persisted session, so a restored device must not depend on negotiated RX parameters
            let mut ja = gen_ja(&mut r, cfg.region, false);
            ja.dl_settings = crate::refregion::rx2_default(cfg.region).1;
            t.rx1.push(FrameSpec::JoinAccept(ja));
            ops.push(Op::Join(t));
        }
        let n = r.range(2, 9) as usize;
        let gen_send = |r: &mut Rng, big: bool| {
            let mut t = Txn::default();
            match r.below(6) {
                0 | 1 => t.rx1.push(gen_frame(r, cfg.region)),
                2 => t.rx2.push(gen_frame(r, cfg.region)),
                3 if nb => {
                    t.rx1.push(gen_frame(r, cfg.region));
                    t.rx1.push(gen_frame(r, cfg.region));
                }
                _ => {}
            }
            if cfg.frontend == Frontend::AsyncC && r.chance(1, 4) {
                t.gap1.push(gen_frame(r, cfg.region));
            }
            if !nb && r.chance(1, 10) {
                // the application abandons this uplink half-way ("at any point of any history": the session is stored
                // and restored after such an operation like after any other)
                t.cancel_at = Some(r.below(12) as u16);
            }
            let port0 = r.chance(1, 8);
            Op::Send { port: if port0 { 0 } else { r.range(1, 223) as u8 }, len: if port0 { 0 } else if big && r.chance(1, 3) { 255 } else { send_len(r) }, confirmed: r.chance(1, 3), txn: t }
        };
        for _ in 0..n {
            ops.push(gen_send(&mut r, false));
        }
        if mutation_mode {
            let m = JsonMutation { kind: r.below(12) as u8, arg: r.next_u64() & 0xFFFF_FFFF };
            let at = r.range(if cfg.otaa { 1 } else { 0 }, ops.len() as i64) as usize;
            ops.insert(at, Op::RestoreMutated(m));
            for _ in 0..r.range(2, 5) {
                ops.push(gen_send(&mut r, true));
            }
            if cfg.frontend == Frontend::AsyncC {
                ops.push(Op::Listen { frames: vec![gen_frame(&mut r, cfg.region), gen_frame(&mut r, cfg.region)], fault: None });
            }
            ops.push(Op::SaveRestore);
            ops.push(gen_send(&mut r, true));
            return MacCase { cfg, ops, knob: 1 };
        }
        if !mutation_mode && r.chance(1, 25) {
            // the ADR counter is in its back-off phase (>= 96 unanswered uplinks) when the session is saved
            ops.push(Op::SetDr(*crate::refregion::uplink_drs(cfg.region).last().unwrap()));
            for _ in 0..r.range(96, 135) {
                ops.push(Op::Send { port: 3, len: 1, confirmed: false, txn: Txn::default() });
            }
            ops.push(Op::SaveRestore);
            ops.push(Op::Send { port: 3, len: 1, confirmed: false, txn: Txn::default() });
        }
        // nb: a crash point between two events of an uplink procedure (the session is readable there)
        if nb && !avoid.contains(TAG_MID_PROCEDURE_CUT) && r.chance(1, 4) {
            // (uncollected downlinks die with the power: keep the application diligent in these runs)
            cfg.lazy_app = false;
            let mut t = Txn::default();
            t.nb_power_cut = Some(r.range(1, 2) as u8);
            let at = r.range(if cfg.otaa { 1 } else { 0 }, ops.len() as i64) as usize;
            ops.insert(at, Op::Send { port: 7, len: 2, confirmed: r.chance(1, 3), txn: t });
        }
        // crash points at arbitrary boundaries
        let k = r.range(1, 4);
        for _ in 0..k {
            let at = r.range(if cfg.otaa { 1 } else { 0 }, ops.len() as i64) as usize;
            ops.insert(at, Op::SaveRestore);
        }
        for _ in 0..2 {
            ops.push(gen_send(&mut r, false));
        }
        if cfg.otaa && r.chance(1, 4) {
            // a restored session that is then replaced by a new join
            let mut t = Txn::default();
            let mut ja = gen_ja(&mut r, cfg.region, false);
            ja.dl_settings = crate::refregion::rx2_default(cfg.region).1;
            t.rx1.push(FrameSpec::JoinAccept(ja));
            ops.push(Op::Join(t));
            ops.push(gen_send(&mut r, false));
            ops.push(Op::SaveRestore);
            ops.push(gen_send(&mut r, false));
        }
        MacCase { cfg, ops, knob: 0 }
    }
    fn execute(&self, case: &MacCase, want_trace: bool) -> Outcome {
        let (w1, mut stats, v1) = run_quiet(case);
        let mut trace = Vec::new();
        if want_trace {
            trace.push("=== run with power loss / restore ===".to_string());
            trace.extend(render_trace(&w1, &case.cfg));
        }
        if v1.is_some() {
            stats.nontrivial = true;
            return Outcome { violation: v1, stats, trace };
        }
        let restored = w1.env.borrow().counters.get("probe.save-restore").copied().unwrap_or(0) > 0
            || w1.env.borrow().counters.get("probe.nb-mid-procedure-power-cut").copied().unwrap_or(0) > 0
            || w1.env.borrow().mutated_session;
        stats.nontrivial = restored || case.ops.iter().any(|o| matches!(o, Op::RestoreMutated(_)));
        if case.knob == 1 || w1.env.borrow().unspecified_seen > 0 || w1.records.iter().any(|r| r.result.is_panic() || r.result == OpResult::Livelock) {
            return Outcome { violation: None, stats, trace };
        }
        // the twin that is never power-cycled (same operation indices => same RNG streams)
        let mut twin = case.clone();
        for op in twin.ops.iter_mut() {
            if matches!(op, Op::SaveRestore) {
                *op = Op::Misuse(255);
            }
            if let Op::Send { txn, .. } = op {
                txn.nb_power_cut = None;
            }
        }
        let (w2, s2, _) = run_quiet(&twin);
        stats.sim_ms += s2.sim_ms;
        stats.steps += s2.steps;
        if want_trace {
            trace.push("=== the original that keeps running (no power loss) ===".to_string());
            trace.extend(render_trace(&w2, &twin.cfg));
        }
        if w2.env.borrow().unspecified_seen > 0 || w2.records.iter().any(|r| r.result.is_panic()) {
            return Outcome { violation: None, stats, trace };
        }
        {
            // probes: what was in the session when it was saved
            for (i, op) in case.ops.iter().enumerate() {
                if matches!(op, Op::SaveRestore) {
                    if let Some(s) = w1.records.get(i).and_then(|r| r.snap_before.as_ref()).and_then(|s| s.session.as_ref()) {
                        if !s.pending.is_empty() {
                            stats.bump("probe.saved-with-pending-answers");
                        }
                        if s.pending.len() >= 13 {
                            stats.bump("probe.saved-with-nearly-full-pending");
                        }
                        if s.owed_ack {
                            stats.bump("probe.saved-with-owed-ack");
                        }
                        if s.fcnt_down.is_none() {
                            stats.bump("probe.saved-with-no-downlink-yet");
                        }
                        if s.fcnt_up >= 0xFFFF && s.fcnt_up <= 0x1_0001 || s.fcnt_up >= 0xFFFF_FFF0 {
                            stats.bump("probe.saved-at-counter-boundary");
                        }
                    }
                }
            }
        }
        let violation = compare(case, &w1, &w2).map(|(inv, msg, ctx)| Violation::new(&inv, ctx, msg));
        Outcome { violation, stats, trace }
    }
    fn self_test(&self) -> Result<(), String> {
        crate::self_test_refs()
    }
    fn expected_probes(&self, _tier: Tier) -> Vec<&'static str> {
        vec![
            "probe.save-restore",
            "probe.mutated-document-accepted",
            "probe.mutated-document-refused",
            "probe.saved-with-pending-answers",
            "probe.saved-with-nearly-full-pending",
            "probe.saved-with-owed-ack",
            "probe.saved-with-no-downlink-yet",
            "probe.saved-at-counter-boundary",
        ]
    }
}
