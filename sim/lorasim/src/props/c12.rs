//! C12 — uplink header bits and ADR back-off follow the session history.

use super::*;
use crate::exec::*;
use crate::gen::*;
use crate::refcodec as rc;
use crate::refregion as rr;
use crate::script::*;
use crate::world::Verdict;
use simcore::*;
use std::collections::BTreeSet;

pub struct C12;

struct Mon {
    adr: bool,
    /// uplinks since the last accepted downlink
    cnt: u32,
    dr: Option<u8>,
    owed_ack: bool,
    /// count-dependent predictions are suspended until the next accepted Class A downlink
    suspended: bool,
    cur_keys: Option<([u8; 16], [u8; 16], u32)>,
    /// an uplink was aborted before its frame reached the radio: whether it took the owed ACK with it is not stated
    ack_unknown: bool,
    uplinks: u64,
}

/// Next lower data rate the stack implements in this region.
fn next_lower(region: RegionId, dr: u8) -> Option<u8> {
    (0..dr).rev().find(|d| rr::dr_def(region, *d).is_some() && !(region == RegionId::EU868 && *d == 6))
}

/// Three-valued answer to "which lower data rate exists" under a channel mask.
#[derive(Clone, Copy, PartialEq, Eq, Debug)]
enum Lower {
    Dr(u8),
    None,
    /// exactly one 125 kHz channel is enabled: whether a 125 kHz rate "exists" then is not stated
    Ambiguous,
}

/// Next lower data rate the enabled channels can carry. Dynamic plans: the mask does not matter here.
/// Fixed plans: a rate exists when its bandwidth class has enabled channels (C09 forbids any other step).
fn next_lower_masked(region: RegionId, dr: u8, snap: Option<&crate::snapshot::Snap>) -> Lower {
    let Some(s) = snap.filter(|_| region.is_fixed()) else {
        return next_lower(region, dr).map(Lower::Dr).unwrap_or(Lower::None);
    };
    let n125 = (0..64).filter(|c| s.mask_bit(*c)).count();
    let n500 = (64..72).filter(|c| s.mask_bit(*c)).count();
    for d in (0..dr).rev() {
        let Some(def) = rr::dr_def(region, d) else { continue };
        if def.bw == 500 {
            if n500 >= 1 {
                return Lower::Dr(d);
            }
        } else if n125 >= 2 {
            return Lower::Dr(d);
        } else if n125 == 1 {
            return Lower::Ambiguous;
        }
    }
    Lower::None
}

impl Monitor for Mon {
    fn after_op(&mut self, w: &mut World, rec: &OpRecord, stats: &mut RunStats) -> Option<Violation> {
        if rec.result.is_panic() {
            stats.bump("probe.foreign-panic");
            return None;
        }
        if w.env.borrow().unspecified_seen > 0 {
            // a frame the statements are silent about was heard: the reference cannot follow the device
            stats.bump("probe.stood-down-after-unspecified-frame");
            return None;
        }
        let (region, join_bias) = {
            let e = w.env.borrow();
            (e.cfg.region, e.cfg.join_bias.is_some())
        };
        let keys = w.dut.session_keys();
        // a join the reference saw completed starts a new session even when its keys coincide with the old ones
        // (two DevNonces alike after an RNG streak, the recorded JoinAccept sent again)
        let joined_anew = matches!(rec.op, Op::Join(_))
            && w.env.borrow().delivered[rec.del_lo..rec.del_hi].iter().any(|d| matches!(d.verdict, crate::world::Verdict::JoinAccept(_)));
        if keys != self.cur_keys || joined_anew {
            self.cur_keys = keys;
            self.cnt = 0;
            self.owed_ack = false;
            self.suspended = false;
        }
        if self.dr.is_none() {
            self.dr = rec.snap_before.as_ref().map(|s| s.data_rate);
        }
        match &rec.op {
            Op::SetAdr(on) => {
                if *on != self.adr {
                    self.adr = *on;
                    // the statement does not say whether uplinks sent with ADR off count
                    self.suspended = true;
                    stats.bump("probe.adr-toggled");
                }
                return None;
            }
            Op::SetDr(_) => {
                self.dr = Some(rec.dr_after);
                return None;
            }
            Op::Join(_) => {
                self.dr = Some(rec.dr_after);
                return None;
            }
            _ => {}
        }
        if aborted_before_tx(w, rec) {
            // the uplink never reached the radio; whether it counts (ADR counter, owed ACK) is not stated
            self.suspended = true;
            self.ack_unknown = true;
            stats.bump("probe.uplink-aborted-before-tx");
        }
        let dels: Vec<crate::world::Delivered> = w.env.borrow().delivered[rec.del_lo..rec.del_hi].to_vec();
        let reacts = reactions(w, rec);
        let is_send = matches!(rec.op, Op::Send { .. });
        if let (Op::Send { confirmed, .. }, Some((_, _, addr))) = (&rec.op, keys) {
            if let Some(tx) = tx_events(w, rec).first() {
                if let Some(p) = rc::parse_data(&tx.bytes) {
                    stats.nontrivial = true;
                    self.uplinks += 1;
                    let desc = format!("uplink #{} ({} since the last accepted downlink, ADR {}, DR{:?})", self.uplinks, self.cnt, self.adr, self.dr);
                    if p.devaddr != addr {
                        return Some(Violation::new("C12.devaddr", "", format!("{desc}: DevAddr {:08x}, session address {:08x}", p.devaddr, addr)));
                    }
                    let want_mtype = if *confirmed { rc::MTYPE_CONF_UP } else { rc::MTYPE_UNCONF_UP };
                    if p.mtype != want_mtype {
                        return Some(Violation::new("C12.mtype", "", format!("{desc}: MType {} but the application asked for confirmed={confirmed}", p.mtype)));
                    }
                    if self.ack_unknown {
                        self.ack_unknown = false;
                        self.owed_ack = p.ack();
                    }
                    if p.ack() != self.owed_ack {
                        return Some(Violation::new(
                            "C12.ack-bit",
                            if self.owed_ack { "missing" } else { "spurious" },
                            format!("{desc}: ACK bit is {} but {} confirmed downlink was accepted since the previous uplink", p.ack(), if self.owed_ack { "a" } else { "no" }),
                        ));
                    }
                    if self.owed_ack {
                        stats.bump("probe.ack-bit-set");
                    }
                    self.owed_ack = false;
                    if p.adr() != self.adr {
                        return Some(Violation::new("C12.adr-bit", "", format!("{desc}: ADR bit is {}", p.adr())));
                    }
                    let lower = self.dr.map(|d| next_lower_masked(region, d, rec.snap_before.as_ref())).unwrap_or(Lower::Ambiguous);
                    if lower == Lower::Ambiguous {
                        stats.bump("probe.lower-rate-ambiguous-under-mask");
                    }
                    if !self.suspended && lower != Lower::Ambiguous {
                        let lower_exists = lower != Lower::None;
                        let want = self.adr && self.cnt >= 64 && lower_exists;
                        if p.bit6() != want {
                            return Some(Violation::new(
                                "C12.adrackreq-bit",
                                if want { "missing" } else { "spurious" },
                                format!("{desc}: ADRACKReq is {} (lower data rate exists: {lower_exists})", p.bit6()),
                            ));
                        }
                        if want {
                            stats.bump("probe.adrackreq-set");
                        }
                        if self.adr && self.cnt >= 64 && !lower_exists {
                            stats.bump("probe.adrackreq-suppressed-at-lowest-dr");
                        }
                        // the transmission itself uses the model's data rate (join bias may force the channel's rate)
                        if let (Some(d), false) = (self.dr, join_bias) {
                            if !crate::expect::rf_is_dr(region, &tx.rf, d) {
                                return Some(Violation::new("C12.spontaneous-dr-change", "tx", format!("{desc}: transmitted with SF{}/BW{}", tx.rf.sf, tx.rf.bw_khz)));
                            }
                        }
                    }
                }
            }
        }
        // downlinks accepted during this operation
        let mut accepted_class_a = false;
        let mut accepted_other = false;
        for (d, r) in dels.iter().zip(reacts.iter()) {
            if let Verdict::Accept { confirmed, .. } = &d.verdict {
                let class_a = matches!(d.win, Win::Rx1 | Win::Rx2);
                // the reference verdict decides acceptance (C05 checks that the device agrees)
                let _ = r;
                if *confirmed {
                    self.owed_ack = true;
                }
                if class_a {
                    accepted_class_a = true;
                } else {
                    accepted_other = true;
                }
            }
        }
        if is_send && !matches!(rec.result, OpResult::NotJoined) && !tx_events(w, rec).is_empty() {
            if accepted_class_a {
                self.cnt = 0;
                self.suspended = false;
                // MAC commands of the downlink may have changed the data rate legitimately (C08)
                self.dr = Some(rec.dr_after);
                stats.bump("probe.count-restarted-by-downlink");
            } else {
                if accepted_other {
                    // a Class C reception restarted the count mid-transaction; whether this uplink then
                    // counts is not specified: suspend count-dependent predictions
                    self.cnt = 0;
                    self.suspended = true;
                }
                self.cnt += 1;
                if self.adr && !self.suspended && self.cnt >= 96 && (self.cnt - 64) % 32 == 0 {
                    match self.dr.map(|d| next_lower_masked(region, d, rec.snap_before.as_ref())) {
                        Some(Lower::Dr(l)) => {
                            self.dr = Some(l);
                            stats.bump("probe.backoff-step-expected");
                        }
                        Some(Lower::Ambiguous) => {
                            // follow the device for this step only
                            self.dr = Some(rec.dr_after);
                        }
                        _ => {}
                    }
                }
            }
        } else if matches!(rec.op, Op::Listen { .. }) && accepted_other {
            self.cnt = 0;
            stats.bump("probe.count-restarted-by-rxc");
        }
        if rec.op.txn().map(|t| t.nb_set_dr_mid.is_some()).unwrap_or(false) {
            // the application changed the data rate itself between TX and RX1
            self.dr = Some(rec.dr_after);
        }
        // the data rate never otherwise changes on its own
        if self.suspended {
            self.dr = Some(rec.dr_after);
        } else if let Some(d) = self.dr {
            if rec.dr_after != d && rec.fcnt_up_after.is_some() {
                return Some(Violation::new(
                    "C12.backoff-step",
                    &format!("{region:?}"),
                    format!("after {} uplinks without an accepted downlink (ADR {}) the device's data rate is DR{}, the model's DR{d}", self.cnt, self.adr, rec.dr_after),
                ));
            }
        }
        None
    }
}

impl Property for C12 {
    type Case = MacCase;
    fn id(&self) -> &'static str {
        "C12"
    }
    fn level(&self) -> &'static str {
        "exploration"
    }
    fn rule(&self) -> String {
        "Seeded long histories (10-400 uplinks; hundreds of uplinks cost milliseconds of wall clock) in every region and front-end, starting from the highest or a random uplink data rate, with rare accepted downlinks (confirmed or not, in RX1 / RX2 / Class C), rejected frames, ADR toggles, data-rate overrides and re-joins; an executable reference model predicts DevAddr, MType, ACK, ADR and ADRACKReq bits of every uplink and the data rate after every operation. Non-trivial: at least one uplink decoded; distinct = trace-shape hash."
            .into()
    }
    fn assumptions(&self) -> Vec<String> {
        vec![
            "after an ADR toggle, and after a Class C reception in the middle of a transaction, the count-dependent predictions (ADRACKReq, back-off) are suspended until the next downlink accepted in RX1/RX2; the unconditional bits stay checked".into(),
            "'a lower data rate exists' means a lower LoRa data rate that the stack implements in the region and, in fixed plans, whose bandwidth class has enabled channels (at least two 125 kHz channels, or one 500 kHz channel; exactly one 125 kHz channel is treated as ambiguous)".into(),
            "data-rate changes commanded by accepted MAC commands are taken from the device (C08 checks them)".into(),
        ]
    }
    fn components(&self) -> serde_json::Value {
        crate::components_mac()
    }
    fn coverage_extra(&self, tier: Tier, runs: u64) -> serde_json::Value {
        serde_json::json!({ "bounded_depth_enumeration": super::enum_coverage(tier, runs) })
    }
    fn budget(&self, tier: Tier) -> u64 {
        match tier {
            Tier::Quick => 300_000,
            Tier::Thorough => 3_000_000,
        }
    }
    fn generate(&self, seed: u64, run: u64, tier: Tier, avoid: &BTreeSet<String>) -> MacCase {
        // one run in five borrows another property"s generator (same case type), so that this oracle also
        // judges histories of shapes its own generator does not produce
        if let Some(c) = super::cross_generate("C12", &["C04", "C05", "C07", "C08", "C09", "C10"], seed, run, tier, avoid) {
            return c;
        }
        // bounded-depth enumeration over the event alphabet
        if let Some(c) = super::enum_generate("C12", run, tier) {
            return c;
        }
        self.own_generate(seed, run, tier, avoid)
    }
    fn execute(&self, case: &MacCase, want_trace: bool) -> Outcome {
        let mut mon = Mon { adr: true, cnt: 0, dr: None, owed_ack: false, suspended: false, cur_keys: None, uplinks: 0, ack_unknown: false };
        let out = run_case(case, &mut mon, want_trace);
        Outcome { violation: out.violation, stats: out.stats, trace: out.trace }
    }
    fn self_test(&self) -> Result<(), String> {
        crate::self_test_refs()?;
        if next_lower(RegionId::IN865, 5) != Some(4) || next_lower(RegionId::US915, 8) != Some(4) || next_lower(RegionId::EU868, 0).is_some() {
            return Err("next_lower".into());
        }
        Ok(())
    }
    fn expected_probes(&self, _tier: Tier) -> Vec<&'static str> {
        vec!["probe.ack-bit-set", "probe.adrackreq-set", "probe.adrackreq-suppressed-at-lowest-dr", "probe.backoff-step-expected", "probe.count-restarted-by-downlink", "probe.adr-toggled"]
    }
}

impl C12 {
    pub fn own_generate(&self, seed: u64, run: u64, _tier: Tier, _avoid: &BTreeSet<String>) -> MacCase {
        let mut r = Rng::new(run_seed(seed, "C12", run));
        let cfg = gen_cfg(&mut r, &CfgProfile { frontends: ALL_FRONTENDS, otaa_pct: 15, boundary_counters_pct: 10, join_bias_pct: 10 });
        let mut cfg = cfg;
        if cfg.fcnt_up0 > 0xFFFF_0000 {
            cfg.fcnt_up0 = 0xFFFF;
        }
        let mut ops = Vec::new();
        if cfg.otaa {
            let mut t = Txn::default();
            t.rx1.push(FrameSpec::JoinAccept(gen_ja(&mut r, cfg.region, false)));
            ops.push(Op::Join(t));
        }
        let ups = rr::uplink_drs(cfg.region);
        if r.chance(3, 4) {
            ops.push(Op::SetDr(if r.chance(1, 2) { *ups.last().unwrap() } else { *r.pick(&ups) }));
        }
        if cfg.region.is_fixed() && r.chance(1, 3) {
            // a sparse channel mask commanded by the network: the 500 kHz channels plus one to three
            // 125 kHz channels (one LinkADRReq block), at the 500 kHz or at a 125 kHz data rate
            let dr500 = *ups.last().unwrap();
            let k = r.range(1, 3) as u32;
            let mut m: u16 = 0;
            while m.count_ones() < k {
                m |= 1 << r.below(16);
            }
            let dr = if r.chance(2, 3) { dr500 } else { *r.pick(&ups) };
            let mut d = DataSpec::plain(1);
            d.fopts = vec![
                MacSpec::LinkAdr { dr, pow: 15, mask: if r.chance(3, 4) { 0x00FF } else { 1 << r.below(8) }, ctl: 7, nbtrans: 1 },
                MacSpec::LinkAdr { dr, pow: 15, mask: m, ctl: r.below(4) as u8, nbtrans: 1 },
            ];
            let mut t = Txn::default();
            t.rx1.push(FrameSpec::Data(d));
            ops.push(Op::Send { port: 1, len: 1, confirmed: false, txn: t });
        }
        if r.chance(1, 6) {
            // the network has commanded an explicit TX power (and nothing else) before the silence begins
            let (ctl, mask) = if cfg.region.is_fixed() { (6u8, 0x00FFu16) } else { (0u8, (1u16 << rr::default_channels(cfg.region).len()) - 1) };
            let mut d = DataSpec::plain(1);
            d.fopts = vec![MacSpec::LinkAdr { dr: 15, pow: r.below(rr::max_tx_power_index(cfg.region) as u64 + 1) as u8, mask, ctl, nbtrans: 1 }];
            let mut t = Txn::default();
            t.rx1.push(FrameSpec::Data(d));
            ops.push(Op::Send { port: 1, len: 1, confirmed: false, txn: t });
        }
        let n = *r.pick(&[10usize, 30, 70, 100, 140, 200, 300, 400]);
        let dl_every = *r.pick(&[0u64, 0, 200, 90, 40, 10]);
        // radio errors at arbitrary call positions inside some of the procedures (each uplink still counts once)
        let fault_pct = *r.pick(&[0u64, 0, 0, 3, 8]);
        for _ in 0..n {
            let x = r.below(1000);
            if x < 4 {
                ops.push(Op::SetAdr(r.chance(1, 2)));
                continue;
            }
            if x < 8 {
                ops.push(Op::SetDr(*r.pick(&ups)));
                continue;
            }
            if x < 10 && cfg.otaa {
                let mut t = Txn::default();
                t.rx2.push(FrameSpec::JoinAccept(gen_ja(&mut r, cfg.region, false)));
                ops.push(Op::Join(t));
                continue;
            }
            if x < 14 && cfg.frontend == Frontend::AsyncC && ops.iter().any(|o| matches!(o, Op::Send { .. })) {
                ops.push(Op::Listen { frames: vec![if r.chance(2, 3) { frame_ok(&mut r) } else { frame_rejected(&mut r) }], fault: None });
                continue;
            }
            let mut t = Txn::default();
            if dl_every > 0 && r.chance(1, dl_every) {
                let f = frame_ok(&mut r);
                match r.below(if cfg.frontend == Frontend::AsyncC { 4 } else { 2 }) {
                    0 => t.rx1.push(f),
                    1 => t.rx2.push(f),
                    2 => t.gap1.push(f),
                    _ => t.gap2.push(f),
                }
            } else if r.chance(1, 30) {
                t.rx1.push(frame_rejected(&mut r));
            }
            if fault_pct > 0 && r.chance(fault_pct, 100) {
                t.fault = Some(Fault { pos: r.below(12) as u16, extra: 0 });
            }
            ops.push(Op::Send { port: 1 + (r.below(200) as u8), len: *r.pick(&[0u8, 1, 4]), confirmed: r.chance(1, 5), txn: t });
        }
        MacCase { cfg, ops, knob: 0 }
    }
}
