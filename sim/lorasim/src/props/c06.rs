//! C06 — uplink frame counters never repeat within a session.
//!
//! History check over every data frame handed to the radio (recorded at call
//! time, whether or not the call then fails), decoded by the reference codec.

use super::*;
use crate::dut::OpResult;
use crate::exec::*;
use crate::gen::*;
use crate::refcodec as rc;
use crate::script::*;
use simcore::*;
use std::collections::BTreeSet;

pub struct C06;

struct Mon {
    /// highest counter seen in the current session
    last_n: Option<u32>,
    /// the device reported expiry of the current session
    expired: bool,
    fcnt_up_before: Option<u32>,
    frames_checked: u64,
    last_frame: Vec<u8>,
    /// identity of the current session (a new session restarts the counters)
    cur_keys: Option<([u8; 16], [u8; 16], u32)>,
}

impl Monitor for Mon {
    fn after_op(&mut self, w: &mut World, rec: &OpRecord, stats: &mut RunStats) -> Option<Violation> {
        if let OpResult::Panic { msg, loc } = &rec.result {
            // a panic is C04's business; for C06 the history simply ends here
            stats.bump("probe.foreign-panic");
            let _ = (msg, loc);
            return None;
        }
        // new session => counters restart. A session is identified by its keys and address: a join
        // whose accept was processed establishes one even when the call then ends in a radio error.
        let keys = w.dut.session_keys();
        // ... and a join attempt in which the reference network saw an authentic JoinAccept delivered starts a new
        // session even if its keys coincide with the old ones (two DevNonces drawn alike, same JoinNonce: one join
        // in 65536)
        let joined_anew = matches!(rec.op, Op::Join(_))
            && w.env.borrow().delivered[rec.del_lo..rec.del_hi].iter().any(|d| matches!(d.verdict, crate::world::Verdict::JoinAccept(_)));
        if keys != self.cur_keys || joined_anew {
            self.cur_keys = keys;
            self.last_n = None;
            self.expired = false;
            stats.bump("probe.new-session");
        }
        if matches!(rec.op, Op::Join(_)) {
            self.fcnt_up_before = rec.fcnt_up_after;
            return None;
        }
        for tx in tx_events(w, rec) {
            let Some(p) = rc::parse_data(&tx.bytes) else { continue };
            if !p.is_uplink() {
                continue;
            }
            let Some((nwk, app, addr)) = keys else { continue };
            if self.expired {
                // the statement quantifies "until the device reports session expiry"
                continue;
            }
            self.frames_checked += 1;
            stats.nontrivial = true;
            if !tx.ok {
                stats.bump("probe.frame-at-failed-tx");
            }
            // which full counter was used for the MIC? candidates around the device's own counter and the history
            let mut cands: BTreeSet<u32> = BTreeSet::new();
            let wire = p.fcnt16 as u32;
            for base in [self.fcnt_up_before, self.last_n, Some(0)].into_iter().flatten() {
                let hi = base >> 16;
                for h in [hi.wrapping_sub(1), hi, hi.wrapping_add(1)] {
                    if h <= 0xFFFF {
                        cands.insert((h << 16) | wire);
                    }
                }
            }
            let n = cands.iter().copied().find(|n| rc::mic_ok(&tx.bytes, &p, &nwk, *n));
            let Some(n) = n else {
                return Some(Violation::new(
                    "C06.mic-counter-mismatch",
                    "",
                    format!("uplink {} carries wire counter {:#06x} but its MIC verifies for none of the full counters {:x?}", hex(&tx.bytes), p.fcnt16, cands),
                ));
            };
            if p.devaddr != addr {
                return Some(Violation::new("C06.mic-counter-mismatch", "devaddr", format!("uplink address {:08x} is not the session's {:08x}", p.devaddr, addr)));
            }
            // payload must decrypt under the same N to what the application passed (port 0: to whole MAC commands
            // of the uplink direction - the device's own answers - under the network session key)
            if let Some(port) = p.fport {
                if port == 0 && !p.frm_cipher.is_empty() {
                    if let Some(Err(e)) = super::c08::uplink_cmds(&tx.bytes, &(nwk, app, addr), Some(n)) {
                        return Some(Violation::new(
                            "C06.payload-counter-mismatch",
                            "port0",
                            format!("the port-0 FRMPayload of the uplink with counter {n} does not decrypt (under that counter) to a sequence of MAC commands: {e}"),
                        ));
                    }
                    stats.bump("probe.port0-payload-checked");
                }
                if port != 0 {
                    let keys = rc::SessionKeys { nwk, app, devaddr: addr };
                    let plain = rc::decrypt_frm(&p, &keys, n);
                    if plain != rec.payload {
                        return Some(Violation::new(
                            "C06.payload-counter-mismatch",
                            "",
                            format!("FRMPayload of uplink with counter {n} does not decrypt (under that counter) to the application data {}", hex(&rec.payload)),
                        ));
                    }
                }
            }
            if let Some(last) = self.last_n {
                if n <= last {
                    let prev_fault = rec.idx > 0 && matches!(w.records[rec.idx - 1].result, OpResult::RadioErr);
                    let detail = if n == last { "reuse" } else { "backwards" };
                    let different = tx.bytes != self.last_frame;
                    return Some(Violation::new(
                        if different && n == last {
                            "C06.counter-reused-for-different-frame"
                        } else if last == u32::MAX {
                            "C06.wrap-without-expiry"
                        } else {
                            "C06.counter-not-increasing"
                        },
                        &format!("{detail}|{:?}|after-radio-error={prev_fault}", w.env.borrow().cfg.frontend),
                        format!(
                            "uplink #{} of the session uses counter {n} after counter {last} was already handed to the radio (no session expiry reported in between); frame {}",
                            self.frames_checked,
                            hex(&tx.bytes)
                        ),
                    ));
                }
            }
            if n >> 16 != 0 && (n & 0xFFFF) < 4 {
                stats.bump("probe.uplink-epoch-rollover");
            }
            if n >= 0xFFFF_FFFD {
                stats.bump("probe.uplink-near-2^32");
            }
            self.last_n = Some(n);
            self.last_frame = tx.bytes.clone();
        }
        match &rec.result {
            OpResult::SessionExpired => {
                self.expired = true;
                stats.bump("probe.session-expired");
            }
            OpResult::Listened(rs) => {
                if rs.iter().any(|r| *r == OpResult::SessionExpired) {
                    self.expired = true;
                    stats.bump("probe.session-expired");
                }
            }
            OpResult::RadioErr => stats.bump("probe.op-ended-in-radio-error"),
            _ => {}
        }
        if matches!(rec.op, Op::SaveRestore) {
            // restore-from-storage belongs to C20; never generated here
        }
        self.fcnt_up_before = rec.fcnt_up_after;
        if self.frames_checked == 97 {
            stats.bump("probe.long-unanswered-run");
        }
        None
    }
}

fn gen_txn(r: &mut Rng, fe: Frontend, fault_pct: u64) -> Txn {
    let mut t = Txn::default();
    t.tx_ms = *r.pick(&[0u32, 0, 30, 400, 1500]);
    if fe == Frontend::Nb {
        t.nb_deferred_tx = r.chance(1, 3);
        t.nb_spurious = if r.chance(1, 5) { 1 } else { 0 };
        t.nb_timer_late_ms = *r.pick(&[0u32, 0, 0, 3, 40]);
        if r.chance(1, 25) {
            // the radio declines the transmit request without reporting an error
            t.nb_tx_declined = r.range(1, 2) as u8;
        }
        if r.chance(1, 8) {
            // a request or radio event the state machine cannot serve at that point of the procedure
            t.nb_intrude = (r.range(1, 3) as u8) | ((r.below(3) as u8) << 2);
        }
    }
    // receive-window outcomes
    match r.below(8) {
        0 | 1 | 2 => {}
        3 => t.rx1.push(frame_ok(r)),
        4 => t.rx2.push(frame_ok(r)),
        5 => t.rx1.push(frame_rejected(r)),
        6 => {
            t.rx1.push(frame_rejected(r));
            t.rx2.push(frame_ok(r));
        }
        _ => {
            t.rx2.push(frame_rejected(r));
            if fe == Frontend::Nb {
                t.rx2.push(frame_ok(r));
            }
        }
    }
    if fe == Frontend::AsyncC {
        for gap in [0, 1] {
            if r.chance(1, 3) {
                let n = r.range(1, 2);
                for _ in 0..n {
                    let f = if r.chance(2, 3) { frame_ok(r) } else { frame_rejected(r) };
                    if gap == 0 {
                        t.gap1.push(f);
                    } else {
                        t.gap2.push(f);
                    }
                }
            }
        }
    }
    if r.chance(fault_pct, 100) {
        t.fault = Some(Fault { pos: r.below(12) as u16, extra: if r.chance(1, 4) { r.range(1, 12) as u16 } else { 0 } });
    }
    t
}

fn ja_valid(r: &mut Rng) -> FrameSpec {
    FrameSpec::JoinAccept(JaSpec { join_nonce: r.next_u32() & 0xFF_FFFF, net_id: r.next_u32() & 0xFF_FFFF, devaddr: r.next_u32(), dl_settings: 0, rx_delay: 0, cflist: None, tamper: Tamper::None })
}

/// Systematic part: a radio fault at every radio-call position of every transaction shape
/// (depth 3: faulted send, then two ordinary sends), all front-ends, three start counters.
fn systematic(run: u64) -> Option<MacCase> {
    const SHAPES: u64 = 5;
    const POS: u64 = 12;
    const FES: [Frontend; 3] = [Frontend::Nb, Frontend::Async, Frontend::AsyncC];
    const STARTS: [u32; 3] = [0, 0xFFFF, 0xFFFF_FFFD];
    let total = SHAPES * POS * 3 * 3;
    if run >= total {
        return None;
    }
    let shape = run % SHAPES;
    let pos = (run / SHAPES) % POS;
    let fe = FES[((run / (SHAPES * POS)) % 3) as usize];
    let start = STARTS[((run / (SHAPES * POS * 3)) % 3) as usize];
    let region = ALL_REGIONS[(run % 9) as usize];
    let mut cfg = WorldCfg::simple(region, fe);
    cfg.fcnt_up0 = start;
    cfg.key_seed = 1000 + run;
    cfg.dev_seed = 2000 + run;
    let mut t = Txn { fault: Some(Fault { pos: pos as u16, extra: 0 }), ..Txn::default() };
    let ok = || FrameSpec::Data(DataSpec { body: Body::Data { port: 5, len: 2 }, ..DataSpec::plain(1) });
    let bad = || FrameSpec::Data(DataSpec { tamper: Tamper::ZeroMic, ..DataSpec::plain(1) });
    match shape {
        0 => {}
        1 => t.rx1.push(ok()),
        2 => t.rx2.push(ok()),
        3 => t.rx1.push(bad()),
        _ => {
            if fe == Frontend::AsyncC {
                t.gap1.push(ok());
                t.gap2.push(bad());
            } else {
                t.rx2.push(bad());
            }
        }
    }
    let ops = vec![
        Op::Send { port: 1, len: 3, confirmed: shape % 2 == 1, txn: t },
        Op::Send { port: 2, len: 4, confirmed: false, txn: Txn::default() },
        Op::Send { port: 3, len: 1, confirmed: true, txn: Txn::default() },
    ];
    Some(MacCase { cfg, ops, knob: 0 })
}

impl Property for C06 {
    type Case = MacCase;
    fn id(&self) -> &'static str {
        "C06"
    }
    fn level(&self) -> &'static str {
        "fault_enumeration"
    }
    fn rule(&self) -> String {
        "Runs 0..539 walk a radio fault over every radio-call position 0..11 x 5 transaction shapes x 3 front-ends x 3 start counters (depth-3 histories); the remaining runs are seeded random histories (4% of them 97-170 consecutive unanswered uplinks, so that ADR back-off steps fall inside the history) of send / RX1-hit / RX2-hit / timeout / rejected frame / Class C reception / OTAA re-join with a radio fault in ~40% of the transactions and start counters drawn from {0,1,0xFFFE,0xFFFF,0x10000,2^32-3..2^32-1}. A run is non-trivial when at least one data uplink reached the radio and was decoded; distinct = distinct trace-shape hash (event kinds, window outcomes, results; not payload bytes)."
            .into()
    }
    fn assumptions(&self) -> Vec<String> {
        vec![
            "cancelling an in-flight send future and power loss are not injected here (the statement quantifies over sends, window outcomes, Class C receptions and radio errors; a send() dropped after the transmission is followed by a frame with the same counter because FCntUp advances only when the receive procedure ends - DESIGN 13.2 item 3 and section 17; restore belongs to C20)".into(),
            "after a radio error the nb application retries the failed event; a failed transmit request ends the procedure".into(),
            "frames are decoded with the device's own session keys by the independent reference codec (AES/CMAC self-tested against FIPS-197/RFC 4493)".into(),
        ]
    }
    fn components(&self) -> serde_json::Value {
        crate::components_mac()
    }
    fn coverage_extra(&self, tier: Tier, runs: u64) -> serde_json::Value {
        serde_json::json!({ "bounded_depth_enumeration": super::enum_coverage(tier, runs) })
    }
    fn budget(&self, tier: Tier) -> u64 {
        match tier {
            Tier::Quick => 2_000_000,
            Tier::Thorough => 40_000_000,
        }
    }
    fn generate(&self, seed: u64, run: u64, tier: Tier, avoid: &BTreeSet<String>) -> MacCase {
        // one run in five borrows another property"s generator (same case type), so that this oracle also
        // judges histories of shapes its own generator does not produce
        if let Some(c) = super::cross_generate("C06", &["C04", "C05", "C07", "C08", "C09", "C12"], seed, run, tier, avoid) {
            return c;
        }
        // bounded-depth enumeration over the event alphabet
        if let Some(c) = super::enum_generate("C06", run, tier) {
            return c;
        }
        self.own_generate(seed, run, tier, avoid)
    }
    fn execute(&self, case: &MacCase, want_trace: bool) -> Outcome {
        let mut mon = Mon { last_n: None, expired: false, fcnt_up_before: if case.cfg.otaa { None } else { Some(case.cfg.fcnt_up0) }, frames_checked: 0, last_frame: vec![], cur_keys: None };
        let out = run_case(case, &mut mon, want_trace);
        Outcome { violation: out.violation, stats: out.stats, trace: out.trace }
    }
    fn self_test(&self) -> Result<(), String> {
        crate::self_test_refs()
    }
    fn expected_probes(&self, _tier: Tier) -> Vec<&'static str> {
        vec!["probe.frame-at-failed-tx", "probe.op-ended-in-radio-error", "probe.uplink-epoch-rollover", "probe.uplink-near-2^32", "probe.long-unanswered-run", "probe.session-expired", "probe.new-session", "fault.tx", "fault.setup_rx", "fault.rx_single", "fault.low_power", "fault.nb_tx_request", "fault.nb_rx_request", "fault.nb_cancel_rx"]
    }
}

impl C06 {
    pub fn own_generate(&self, seed: u64, run: u64, _tier: Tier, _avoid: &BTreeSet<String>) -> MacCase {
        if let Some(c) = systematic(run) {
            return c;
        }
        let mut r = Rng::new(run_seed(seed, "C06", run));
        let mut cfg = gen_cfg(&mut r, &CfgProfile { frontends: ALL_FRONTENDS, otaa_pct: 15, boundary_counters_pct: 60, join_bias_pct: 20 });
        maybe_phy(&mut r, &mut cfg, 1, 8);
        let fe = cfg.frontend;
        let fault_pct = *r.pick(&[0u64, 20, 40, 70]);
        let n = r.range(2, 10) as usize;
        let mut ops = Vec::new();
        if !cfg.otaa && r.chance(1, 25) {
            // a long run of unanswered uplinks: ADR back-off steps at 96, 128, 160 (from the default,
            // i.e. lowest, data rate or from a higher one), with an occasional radio fault
            if r.chance(1, 2) {
                ops.push(Op::SetDr(*r.pick(&crate::refregion::uplink_drs(cfg.region))));
            }
            let len = r.range(97, 170);
            for i in 0..len {
                let mut t = Txn::default();
                if r.chance(1, 60) {
                    t.fault = Some(Fault { pos: r.below(10) as u16, extra: if r.chance(1, 4) { r.range(1, 12) as u16 } else { 0 } });
                }
                ops.push(Op::Send { port: 1, len: (i % 5) as u8, confirmed: false, txn: t });
            }
            return MacCase { cfg, ops, knob: 0 };
        }
        if cfg.otaa {
            let mut t = Txn::default();
            if r.chance(1, 2) {
                t.rx1.push(ja_valid(&mut r));
            } else {
                t.rx2.push(ja_valid(&mut r));
            }
            ops.push(Op::Join(t));
        }
        for _ in 0..n {
            match r.below(12) {
                0 if fe == Frontend::AsyncC => {
                    let k = r.range(1, 3);
                    let frames = (0..k).map(|_| if r.chance(3, 4) { frame_ok(&mut r) } else { frame_rejected(&mut r) }).collect();
                    ops.push(Op::Listen { frames, fault: if r.chance(1, 5) { Some(Fault { pos: r.below(3) as u16, extra: if r.chance(1, 4) { r.range(1, 3) as u16 } else { 0 } }) } else { None } });
                }
                1 if cfg.otaa => {
                    let mut t = gen_txn(&mut r, fe, fault_pct / 2);
                    t.rx1.clear();
                    t.rx2.clear();
                    if r.chance(3, 4) {
                        t.rx1.push(ja_valid(&mut r));
                    }
                    ops.push(Op::Join(t));
                }
                2 => {
                    // a downlink that queues MAC answers, then a MAC-only uplink: the answers travel in the port-0
                    // FRMPayload, encrypted under the network session key with the full uplink counter
                    let mut t = Txn::default();
                    let mut d = DataSpec::plain(1);
                    d.fopts = vec![MacSpec::DevStatus, MacSpec::RxTimingSetup { del: r.below(16) as u8 }];
                    if r.chance(1, 2) {
                        t.rx1.push(FrameSpec::Data(d));
                    } else {
                        t.rx2.push(FrameSpec::Data(d));
                    }
                    ops.push(Op::Send { port: 3, len: 1, confirmed: false, txn: t });
                    ops.push(Op::Send { port: 0, len: 0, confirmed: r.chance(1, 4), txn: gen_txn(&mut r, fe, fault_pct / 2) });
                }
                _ => {
                    let txn = gen_txn(&mut r, fe, fault_pct);
                    ops.push(Op::Send { port: r.range(1, 223) as u8, len: send_len(&mut r), confirmed: r.chance(1, 3), txn });
                }
            }
        }
        MacCase { cfg, ops, knob: 0 }
    }
}
