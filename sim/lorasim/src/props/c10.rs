//! C10 — receive windows follow the regional parameters in force when the uplink was sent.

use super::*;
use crate::exec::*;
use crate::expect::*;
use crate::gen::*;
use crate::refregion as rr;
use crate::script::*;
use simcore::*;
use std::collections::BTreeSet;

pub struct C10;

struct Mon;

fn dr_name(region: RegionId, rf: &crate::world::Rf) -> String {
    format!("SF{}/BW{} (DR{:?})", rf.sf, rf.bw_khz, rr::drs_matching(region, rf.sf, rf.bw_khz))
}

impl Monitor for Mon {
    fn after_op(&mut self, w: &mut World, rec: &OpRecord, stats: &mut RunStats) -> Option<Violation> {
        if let Some((kind, detail, msg)) = take_stack_alert(w, &["rx-config", "rx-refused"]) {
            return Some(Violation::new(&format!("C10.chip-{kind}"), &detail, format!("full stack (real lora-phy on a simulated chip): {msg}")));
        }
        if rec.result.is_panic() {
            stats.bump("probe.foreign-panic");
            return None;
        }
        if w.env.borrow().unspecified_seen > 0 {
            // a frame the statements are silent about was heard: the reference cannot follow the device
            stats.bump("probe.stood-down-after-unspecified-frame");
            return None;
        }
        let is_join = matches!(rec.op, Op::Join(_));
        if !is_join && !matches!(rec.op, Op::Send { .. }) {
            return None;
        }
        let txs = tx_events(w, rec);
        let Some(tx) = txs.iter().find(|t| t.ok) else { return None };
        let Some(snap) = rec.snap_before.clone() else { return None };
        let (region, fe, lead, buffer, nb_off) = {
            let e = w.env.borrow();
            (e.cfg.region, e.cfg.frontend, e.cfg.lead_ms, e.cfg.buffer_ms.unwrap_or(e.cfg.lead_ms), e.cfg.nb_offset_ms)
        };
        let exp = expected_windows(region, &snap, tx, is_join);
        let obs = {
            let e = w.env.borrow();
            window_obs(&e.trace, rec.trace_lo, rec.trace_hi)
        };
        stats.nontrivial = true;
        stats.states.push({
            let mut h = Fnv::new();
            h.str(&format!("{region:?}{:?}{:?}{}{:?}{:?}{}", exp.up_dr, is_join, snap.rx1_dr_offset, snap.rx2_data_rate, snap.rx2_frequency, snap.rx1_delay));
            h.finish()
        });
        let ctx = format!("{region:?} {} uplink at {} Hz {} with RX1DROffset={} RX2={:?}/{:?} delay={}ms", if is_join { "join" } else { "data" }, tx.rf.freq, dr_name(region, &tx.rf), snap.rx1_dr_offset, snap.rx2_frequency, snap.rx2_data_rate, snap.rx1_delay);

        // every window must use a LoRa data rate the region defines, coding rate 4/5
        for (rf, _) in obs.singles.iter() {
            if !rf_is_defined(region, rf) || rf.cr != 5 {
                return Some(Violation::new("C10.undefined-datarate", &format!("{region:?}"), format!("{ctx}: a receive window was opened with SF{}/BW{}/CR4-{} which is not a LoRa data rate of the region", rf.sf, rf.bw_khz, rf.cr)));
            }
        }
        // RX1
        if let Some((rf1, buf1)) = obs.singles.first() {
            if exp.rx1_freqs.is_empty() {
                stats.bump("probe.tx-channel-not-in-plan");
            } else if !exp.rx1_freqs.contains(&rf1.freq) {
                return Some(Violation::new("C10.rx1-frequency", &format!("{region:?}"), format!("{ctx}: RX1 opened at {} Hz, expected {:?}", rf1.freq, exp.rx1_freqs)));
            }
            let ok = exp.rx1_dr.iter().any(|e| match e {
                rr::Rx1Dr::Exact(d) => rf_is_dr(region, rf1, *d),
                rr::Rx1Dr::Ambiguous => true,
            });
            if exp.rx1_dr.iter().any(|e| *e == rr::Rx1Dr::Ambiguous) {
                stats.bump("probe.rx1-table-entry-ambiguous");
            }
            if !ok {
                return Some(Violation::new(
                    "C10.rx1-datarate",
                    &format!("{region:?}|up={:?}|off={}", exp.up_dr, snap.rx1_dr_offset),
                    format!("{ctx}: RX1 opened at {}, the regional table gives {:?}", dr_name(region, rf1), exp.rx1_dr),
                ));
            }
            if fe != Frontend::Nb && *buf1 != Some(buffer) {
                return Some(Violation::new("C10.rx1-time", "buffer", format!("{ctx}: RX1 single-shot buffer {:?} ms, board declares {buffer}", buf1)));
            }
            stats.bump("probe.rx1-checked");
        }
        // RX2
        if let Some((rf2, _)) = obs.singles.get(1) {
            if !exp.rx2_freqs.contains(&rf2.freq) {
                return Some(Violation::new("C10.rx2-frequency", &format!("{region:?}"), format!("{ctx}: RX2 opened at {} Hz, expected {:?}", rf2.freq, exp.rx2_freqs)));
            }
            if !exp.rx2_drs.iter().any(|d| rf_is_dr(region, rf2, *d)) {
                return Some(Violation::new("C10.rx2-datarate", &format!("{region:?}"), format!("{ctx}: RX2 opened at {}, expected DR{:?}", dr_name(region, rf2), exp.rx2_drs)));
            }
            stats.bump("probe.rx2-checked");
        }
        // timing
        if fe == Frontend::Nb {
            if let (Some(t1), Some(done)) = (obs.timeout_requests.first(), obs.tx_done) {
                // 32-bit millisecond clock: all times modulo 2^32
                let want: Vec<i64> = exp.delay1_ms.iter().map(|d| (done as i64 + *d as i64 + nb_off as i64).rem_euclid(1 << 32)).collect();
                if !want.contains(&(*t1 as i64)) {
                    return Some(Violation::new("C10.rx1-time", "nb", format!("{ctx}: RX1 requested at t={t1} with TxDone at {done} and board offset {nb_off}, expected {want:?}")));
                }
                if let Some(t2) = obs.timeout_requests.get(2) {
                    if *t2 != t1.wrapping_add(1000) {
                        return Some(Violation::new("C10.rx2-time", "nb", format!("{ctx}: RX2 requested at t={t2}, RX1 at t={t1}: not 1 s apart")));
                    }
                    stats.bump("probe.rx2-time-checked");
                }
                stats.bump("probe.rx1-time-checked");
            }
        } else if let (Some(a1), Some(ret)) = (obs.timer_at.first(), obs.tx_ret_ms) {
            let want: Vec<i64> = exp.delay1_ms.iter().map(|d| *d as i64 + ret as i64 - lead as i64).collect();
            if !want.contains(&(*a1 as i64)) {
                return Some(Violation::new("C10.rx1-time", "async", format!("{ctx}: RX1 preparation timed at {a1} ms after TX end (tx() returned {ret}, lead {lead}), expected {want:?}")));
            }
            if let Some(a2) = obs.timer_at.get(1) {
                if *a2 != *a1 + 1000 {
                    return Some(Violation::new("C10.rx2-time", "async", format!("{ctx}: RX2 timed at {a2} ms, RX1 at {a1} ms: not 1 s apart")));
                }
                stats.bump("probe.rx2-time-checked");
            }
            stats.bump("probe.rx1-time-checked");
        }
        // Class C listening between / after the windows uses the RX2 parameters (in force at that moment)
        for (rfc, at) in &obs.continuous {
            let mut freqs = exp.rx2_freqs.clone();
            let mut drs = exp.rx2_drs.clone();
            if let (Some(first), Some(last), Some(after)) = (obs.first_delivery_at, obs.last_delivery_at, &rec.snap_after) {
                let af = after.rx2_frequency.unwrap_or(rr::rx2_default(region).0);
                let ad = after.rx2_data_rate.unwrap_or(rr::rx2_default(region).1);
                if *at > last && w.env.borrow().unspecified_seen == 0 {
                    // nothing is received after this point of the operation: the parameters the device holds
                    // at the end of the operation are the ones in force when this listening was configured
                    freqs = vec![af];
                    drs = vec![ad];
                    stats.bump("probe.rxc-after-last-frame-checked");
                } else if *at > first {
                    freqs.push(af);
                    drs.push(ad);
                }
            }
            if !freqs.contains(&rfc.freq) || !drs.iter().any(|d| rf_is_dr(region, rfc, *d)) {
                return Some(Violation::new("C10.rxc-config", &format!("{region:?}"), format!("{ctx}: Class C listening configured at {} Hz {}, RX2 parameters are {:?} Hz DR{:?}", rfc.freq, dr_name(region, rfc), freqs, drs)));
            }
            stats.bump("probe.rxc-checked");
        }
        if rec.op.txn().map(|t| t.nb_set_dr_mid.is_some()).unwrap_or(false) {
            stats.bump("probe.datarate-changed-between-tx-and-rx1");
        }
        if snap.rx2_frequency.is_some() {
            stats.bump("probe.rx2-override-in-force");
        }
        if !region.is_fixed() && snap.channels.iter().flatten().any(|c| c.dl_freq.is_some()) {
            stats.bump("probe.dlchannel-mapping-in-force");
        }
        if snap.rx1_delay > 1000 {
            stats.bump("probe.rx-delay-above-1s");
        }
        None
    }
}

fn gen_txn(r: &mut Rng, cfg: &WorldCfg, cmd_pct: u64) -> Txn {
    let mut t = Txn::default();
    t.tx_ms = *r.pick(&[0u32, 0, 17, 400, 2793]);
    if cfg.frontend == Frontend::Nb {
        t.nb_deferred_tx = r.chance(1, 3);
        t.nb_timer_late_ms = *r.pick(&[0u32, 0, 5, 90]);
        if r.chance(1, 4) {
            t.nb_set_dr_mid = Some(*r.pick(&rr::uplink_drs(cfg.region)));
        }
    }
    if r.chance(cmd_pct, 100) {
        let k = r.range(1, 3) as usize;
        let macs: Vec<MacSpec> = (0..k).map(|_| gen_mac_valid(r, cfg.region)).collect();
        let d = frame_with_macs(macs, r.chance(1, 6));
        if r.chance(1, 2) {
            t.rx1.push(FrameSpec::Data(d));
        } else {
            t.rx2.push(FrameSpec::Data(d));
        }
    } else if r.chance(1, 6) {
        t.rx1.push(frame_rejected(r));
    }
    if cfg.frontend == Frontend::AsyncC && r.chance(1, 4) {
        t.gap1.push(frame_ok(r));
    }
    t
}

impl Property for C10 {
    type Case = MacCase;
    fn id(&self) -> &'static str {
        "C10"
    }
    fn level(&self) -> &'static str {
        "exploration"
    }
    fn rule(&self) -> String {
        "Seeded histories (OTAA with region-valid JoinAccept settings, or ABP; 9 regions; nb / async / async+Class C; board lead / buffer / offset swarm; tx() return values 0..2793 ms) in which accepted downlinks carry region-valid LinkADRReq / RXParamSetupReq / RXTimingSetupReq / NewChannelReq / DlChannelReq, the application overrides the data rate (also between TX and RX1 on the nb front-end), and every uplink's RX1 / RX2 / RXC radio configurations and timer requests are compared with RP002 (RX1 table as formulas, RX2 defaults, channel pairing) evaluated on the parameters in force before the transmission. Non-trivial: a window of at least one uplink was checked; distinct = trace-shape hash; states = distinct (region, uplink DR, join?, RX1DROffset, RX2 override, delay) tuples checked."
            .into()
    }
    fn assumptions(&self) -> Vec<String> {
        vec![
            "the parameters in force are read through the H1 snapshot taken before the transmission; that the snapshot follows the network's commands is C08's and C11's claim".into(),
            "RX1 table entries that differ between RP002 revisions or name FSK/LR-FHSS rates accept any region-defined LoRa data rate".into(),
            "for a re-join both the defaults and the settings negotiated in the previous session are admissible for the join-accept windows (the statement is silent)".into(),
            "window close times (TimeoutRequest after opening a window) are not specified by the statement and not checked".into(),
        ]
    }
    fn components(&self) -> serde_json::Value {
        crate::components_mac()
    }
    fn coverage_extra(&self, tier: Tier, runs: u64) -> serde_json::Value {
        serde_json::json!({ "bounded_depth_enumeration": super::enum_coverage(tier, runs) })
    }
    fn budget(&self, tier: Tier) -> u64 {
        match tier {
            Tier::Quick => 1_500_000,
            Tier::Thorough => 20_000_000,
        }
    }
    fn generate(&self, seed: u64, run: u64, tier: Tier, avoid: &BTreeSet<String>) -> MacCase {
        // one run in five borrows another property"s generator (same case type), so that this oracle also
        // judges histories of shapes its own generator does not produce
        if let Some(c) = super::cross_generate("C10", &["C04", "C07", "C08", "C09", "C11", "C12"], seed, run, tier, avoid) {
            return c;
        }
        // bounded-depth enumeration over the event alphabet
        if let Some(c) = super::enum_generate("C10", run, tier) {
            return c;
        }
        self.own_generate(seed, run, tier, avoid)
    }
    fn execute(&self, case: &MacCase, want_trace: bool) -> Outcome {
        let mut mon = Mon;
        let out = run_case(case, &mut mon, want_trace);
        Outcome { violation: out.violation, stats: out.stats, trace: out.trace }
    }
    fn self_test(&self) -> Result<(), String> {
        crate::self_test_refs()
    }
    fn expected_probes(&self, _tier: Tier) -> Vec<&'static str> {
        vec![
            "probe.rx1-checked",
            "probe.rx2-checked",
            "probe.rx1-time-checked",
            "probe.rx2-time-checked",
            "probe.rxc-checked",
            "probe.rx2-override-in-force",
            "probe.dlchannel-mapping-in-force",
            "probe.rx-delay-above-1s",
            "probe.datarate-changed-between-tx-and-rx1",
        ]
    }
}

impl C10 {
    pub fn own_generate(&self, seed: u64, run: u64, _tier: Tier, _avoid: &BTreeSet<String>) -> MacCase {
        let mut r = Rng::new(run_seed(seed, "C10", run));
        let mut cfg = gen_cfg(&mut r, &CfgProfile { frontends: ALL_FRONTENDS, otaa_pct: 40, boundary_counters_pct: 5, join_bias_pct: 40 });
        maybe_phy(&mut r, &mut cfg, 1, 5);
        let mut ops = Vec::new();
        if cfg.otaa {
            let mut t = Txn { tx_ms: *r.pick(&[0u32, 61, 1400]), ..Txn::default() };
            let ja = FrameSpec::JoinAccept(gen_ja_valid(&mut r, cfg.region));
            if r.chance(1, 2) {
                t.rx1.push(ja);
            } else {
                t.rx2.push(ja);
            }
            if r.chance(1, 5) {
                // a failed attempt first
                ops.push(Op::Join(Txn::default()));
            }
            ops.push(Op::Join(t));
        }
        let n = r.range(3, 14) as usize;
        let cmd_pct = *r.pick(&[30u64, 60, 90]);
        for _ in 0..n {
            match r.below(10) {
                0 => ops.push(Op::SetDr(*r.pick(&rr::uplink_drs(cfg.region)))),
                1 if cfg.otaa => {
                    let mut t = Txn::default();
                    t.rx1.push(FrameSpec::JoinAccept(gen_ja_valid(&mut r, cfg.region)));
                    ops.push(Op::Join(t));
                }
                _ => {
                    let txn = gen_txn(&mut r, &cfg, cmd_pct);
                    ops.push(Op::Send { port: r.range(1, 223) as u8, len: send_len(&mut r), confirmed: r.chance(1, 4), txn });
                }
            }
        }
        MacCase { cfg, ops, knob: 0 }
    }
}
