//! C07 — frames that are not accepted change nothing (twin execution, 2-safety).
//!
//! Script S is run; every frame the *reference codec* rejects is then removed (kept frames are
//! pinned to the exact bytes that were delivered) and the twin script S' is run on a fresh device
//! with identical configuration and per-operation RNG seeds. Every radio request, timer request,
//! response, delivered downlink and the H1 snapshot after every operation must be equal.

use super::*;
use crate::exec::*;
use crate::gen::*;
use crate::script::*;
use crate::world::{Ev, RespCode, Verdict};
use simcore::*;
use std::collections::BTreeSet;

pub struct C07;

struct Quiet;
impl Monitor for Quiet {
    fn after_op(&mut self, _w: &mut World, _rec: &OpRecord, _stats: &mut RunStats) -> Option<Violation> {
        None
    }
}

/// Observable events of one operation, without the receptions themselves.
fn projection(w: &World, rec: &OpRecord) -> Vec<String> {
    let e = w.env.borrow();
    let mut v = Vec::new();
    let mut tx_done: Option<u64> = None;
    for ev in &e.trace[rec.trace_lo..rec.trace_hi] {
        match ev {
            Ev::Tx { pw, rf, bytes, ok, ret_ms, .. } => v.push(format!("tx pw={pw} {} ok={ok} ret={ret_ms} {}", rf.short(), hex(bytes))),
            Ev::SetupRx { rf, single_ms, ok, .. } => v.push(format!("setup_rx {} {:?} ok={ok}", rf.short(), single_ms)),
            Ev::LowPower { ok, .. } => v.push(format!("low_power ok={ok}")),
            Ev::TimerAt { ms, .. } => v.push(format!("timer.at({ms})")),
            Ev::NbTxRequest { pw, rf, bytes, outcome, .. } => {
                if let Some(ts) = outcome.strip_prefix("TxDone(").and_then(|s| s.strip_suffix(')')) {
                    tx_done = ts.parse().ok();
                }
                v.push(format!("TxRequest pw={pw} {} {} -> {}", rf.short(), hex(bytes), outcome.split('(').next().unwrap_or("")));
            }
            Ev::NbPhy { what, .. } => {
                if let Some(ts) = what.strip_prefix("TxComplete -> TxDone(").and_then(|s| s.strip_suffix(')')) {
                    tx_done = ts.parse().ok();
                }
            }
            Ev::NbRxRequest { rf, ok, .. } => v.push(format!("RxRequest {} ok={ok}", rf.short())),
            Ev::NbCancelRx { ok, .. } => v.push(format!("CancelRx ok={ok}")),
            Ev::NbEvent { code: RespCode::TimeoutRequest(t), .. } => v.push(format!("TimeoutRequest(+{})", t.wrapping_sub(tx_done.unwrap_or(0) as u32) as i32)),
            _ => {}
        }
    }
    v
}

fn frames_mut(t: &mut Txn, win: Win) -> Option<&mut Vec<FrameSpec>> {
    match win {
        Win::Gap1 => Some(&mut t.gap1),
        Win::Rx1 => Some(&mut t.rx1),
        Win::Gap2 => Some(&mut t.gap2),
        Win::Rx2 => Some(&mut t.rx2),
        Win::Idle => None,
    }
}

/// Build the twin script from the primary run: rejected frames removed, kept frames pinned to bytes.
/// For each op: the oversize frame (window, slot) after which the device ended the receive procedure
/// as a timeout - one of the two behaviours the statement allows for such a frame.
fn oversize_cuts(w: &World) -> Vec<Option<(Win, usize)>> {
    let mut cuts = Vec::new();
    for rec in &w.records {
        let reacts = reactions(w, rec);
        let e = w.env.borrow();
        let dels = &e.delivered[rec.del_lo..rec.del_hi];
        let cut = dels
            .iter()
            .zip(reacts.iter())
            .find(|(d, r)| d.verdict == Verdict::Oversize && matches!(d.win, Win::Rx1 | Win::Rx2) && matches!(r, Reaction::EndedAsTimeout | Reaction::Expired))
            .map(|(d, _)| (d.win, d.slot));
        cuts.push(cut);
    }
    cuts
}

fn twin_of(case: &MacCase, w: &World, cuts: &[Option<(Win, usize)>]) -> (MacCase, usize) {
    let e = w.env.borrow();
    let mut twin = case.clone();
    let mut removed = 0usize;
    // per op: process deliveries in reverse slot order so that removals do not shift earlier slots
    for (idx, op) in twin.ops.iter_mut().enumerate() {
        let mut dels: Vec<&crate::world::Delivered> = e.delivered.iter().filter(|d| d.op == idx).collect();
        // has an oversize frame ended this transaction?
        let cut_after: Option<(Win, usize)> = cuts.get(idx).copied().flatten();
        dels.sort_by_key(|d| std::cmp::Reverse(d.slot));
        let order = |w: Win| match w {
            Win::Gap1 => 0,
            Win::Rx1 => 1,
            Win::Gap2 => 2,
            Win::Rx2 => 3,
            Win::Idle => 4,
        };
        for d in dels {
            let reject = matches!(d.verdict, Verdict::Reject(_) | Verdict::Oversize);
            let list: Option<&mut Vec<FrameSpec>> = match op {
                Op::Join(t) => frames_mut(t, d.win),
                Op::Send { txn, .. } => frames_mut(txn, d.win),
                Op::Listen { frames, .. } => Some(frames),
                _ => None,
            };
            let Some(list) = list else { continue };
            if d.slot >= list.len() {
                continue;
            }
            if reject {
                list.remove(d.slot);
                removed += 1;
            } else {
                list[d.slot] = FrameSpec::Raw(d.bytes.clone());
            }
        }
        if let Some((cw, cslot)) = cut_after {
            // everything scripted after the oversize frame in this transaction is never heard
            let txn = match op {
                Op::Join(t) => Some(t),
                Op::Send { txn, .. } => Some(txn),
                _ => None,
            };
            if let Some(t) = txn {
                for win in [Win::Gap1, Win::Rx1, Win::Gap2, Win::Rx2] {
                    if let Some(l) = frames_mut(t, win) {
                        if order(win) > order(cw) {
                            l.clear();
                        } else if win == cw {
                            // keep only the frames that were delivered before the oversize frame and not removed
                            let kept_before = e
                                .delivered
                                .iter()
                                .filter(|d| d.op == idx && d.win == cw && d.slot < cslot && !matches!(d.verdict, Verdict::Reject(_) | Verdict::Oversize))
                                .count();
                            l.truncate(kept_before);
                        }
                    }
                }
            }
        }
        // frames that were scripted but never delivered (window closed early) stay as they are
    }
    (twin, removed)
}

fn compare(case: &MacCase, w1: &World, w2: &World, cuts: &[Option<(Win, usize)>]) -> Option<(String, String)> {
    for (i, (a, b)) in w1.records.iter().zip(w2.records.iter()).enumerate() {
        let pa = projection(w1, a);
        let pb = projection(w2, b);
        let oversize_here = cuts.get(i).copied().flatten().is_some();
        let events_ok = if oversize_here { pb.len() >= pa.len() && pb[..pa.len()] == pa[..] } else { pa == pb };
        if !events_ok {
            let k = pa.iter().zip(pb.iter()).position(|(x, y)| x != y).unwrap_or(pa.len().min(pb.len()));
            let kind = pa.get(k).or(pb.get(k)).map(|s| s.split(' ').next().unwrap_or("").to_string()).unwrap_or_default();
            return Some((
                format!("trace|{kind}"),
                format!("operation #{i} ({}): with the rejected frame(s) the device did `{}`, its twin that never heard them did `{}`", case.ops[i].kind(), pa.get(k).cloned().unwrap_or("<nothing more>".into()), pb.get(k).cloned().unwrap_or("<nothing more>".into())),
            ));
        }
        if a.result != b.result {
            return Some(("result".into(), format!("operation #{i} ({}): result {:?}, twin {:?}", case.ops[i].kind(), a.result, b.result)));
        }
        let mut da = a.downlinks.clone();
        let mut db = b.downlinks.clone();
        da.sort();
        db.sort();
        if da != db {
            return Some(("downlinks".into(), format!("operation #{i}: delivered downlinks differ: {:?} vs twin {:?}", da.len(), db.len())));
        }
        if let (Some(sa), Some(sb)) = (&a.snap_after, &b.snap_after) {
            if sa != sb {
                let d = sa.diff(sb);
                let field = d.first().map(|s| s.split(':').next().unwrap_or("").to_string()).unwrap_or_default();
                return Some((format!("state|{field}"), format!("operation #{i} ({}): state after the operation differs from the twin's: {}", case.ops[i].kind(), d.join("; ").chars().take(600).collect::<String>())));
            }
        }
    }
    None
}

fn run_quiet(case: &MacCase) -> (World, RunStats) {
    let mut w = World::new(&case.cfg);
    let mut stats = RunStats::default();
    let mut q = Quiet;
    for (idx, op) in case.ops.iter().enumerate() {
        let rec = w.step(idx, op);
        let _ = q.after_op(&mut w, &rec, &mut stats);
        if rec.result.is_panic() {
            break;
        }
    }
    finish(&w, &mut stats);
    (w, stats)
}

fn gen_setup_frame(r: &mut Rng, region: RegionId) -> FrameSpec {
    // an authentic downlink that leaves something to lose: sticky answers, an owed ACK
    let mut macs = Vec::new();
    match r.below(4) {
        0 => macs.push(MacSpec::RxTimingSetup { del: r.below(16) as u8 }),
        1 => macs.push(gen_mac_valid(r, region)),
        2 => {
            macs.push(MacSpec::RxTimingSetup { del: 1 });
            macs.push(MacSpec::DevStatus);
        }
        _ => {}
    }
    let mut d = frame_with_macs(macs, false);
    d.confirmed = r.chance(1, 2);
    if d.body == Body::None && r.chance(1, 2) {
        d.body = Body::Data { port: 4, len: 2 };
    }
    FrameSpec::Data(d)
}

fn gen_bad(r: &mut Rng, cfg: &WorldCfg, allow_oversize: &mut bool) -> FrameSpec {
    match r.below(12) {
        0 if *allow_oversize => {
            *allow_oversize = false;
            let mut d = DataSpec::plain(1);
            d.body = Body::Data { port: 1, len: *r.pick(&[60u8, 130, 200, 242]) };
            if r.chance(1, 2) {
                d.tamper = Tamper::WrongNwkKey;
            }
            FrameSpec::Data(d)
        }
        1 => FrameSpec::JoinAccept(JaSpec { tamper: if r.chance(1, 2) { Tamper::WrongNwkKey } else { Tamper::None }, ..gen_ja(r, cfg.region, true) }),
        2 => {
            // looks like a perfectly good frame with MAC commands, but fails its MIC
            let mut d = frame_with_macs(vec![gen_mac_valid(r, cfg.region)], false);
            d.tamper = r.pick(&[Tamper::WrongNwkKey, Tamper::ZeroMic, Tamper::MicEpoch(1)]).clone();
            d.confirmed = true;
            FrameSpec::Data(d)
        }
        _ => frame_rejected(r),
    }
}

impl Property for C07 {
    type Case = MacCase;
    fn id(&self) -> &'static str {
        "C07"
    }
    fn level(&self) -> &'static str {
        "exploration"
    }
    fn rule(&self) -> String {
        "Pairs of runs that differ only by rejected frames: a seeded history S (OTAA and ABP, 9 regions, 3 front-ends) with frames the reference codec rejects - random bytes, bit flips / truncations / zero or wrong-key MICs of authentic frames, other sessions' frames, verbatim replays, stale and far-future counters, JoinAccepts under a wrong key or while joined, data frames while joining, one oversize frame - inserted at receive opportunities (RX1, RX2, several per window on the nb front-end, Class C gaps and idle listening), biased to arrive right after a downlink that queued sticky answers or requested confirmation; the twin S' is S without those frames (kept frames pinned to the delivered bytes; for an oversize frame in RX1/RX2 the twin follows whichever of the two allowed behaviours the device showed: plain rejection, or ending the transaction as a timeout). Radio requests, timer requests relative to TX end, responses, downlinks and H1 snapshots are compared operation by operation. Non-trivial: at least one rejected frame was removed; distinct = trace-shape hash of S."
            .into()
    }
    fn assumptions(&self) -> Vec<String> {
        vec![
            "whether a frame counts as rejected is decided by the reference codec at delivery time, never by the implementation; runs containing frames the statements are silent about are skipped".into(),
            "the receptions themselves (rx_single / radio events and their 'no update' answers) are excluded from the comparison; everything else must be equal".into(),
            "an oversize frame in RX1/RX2 may end the receive procedure as a timeout (then the rest of that transaction is not heard): the twin follows the behaviour the device showed".into(),
        ]
    }
    fn components(&self) -> serde_json::Value {
        crate::components_mac()
    }
    fn coverage_extra(&self, tier: Tier, runs: u64) -> serde_json::Value {
        serde_json::json!({ "bounded_depth_enumeration": super::enum_coverage(tier, runs) })
    }
    fn budget(&self, tier: Tier) -> u64 {
        match tier {
            Tier::Quick => 1_000_000,
            Tier::Thorough => 12_000_000,
        }
    }
    fn generate(&self, seed: u64, run: u64, tier: Tier, avoid: &BTreeSet<String>) -> MacCase {
        // one run in five borrows another property"s generator (same case type), so that this oracle also
        // judges histories of shapes its own generator does not produce
        if let Some(mut c) = super::cross_generate("C07", &["C04", "C05", "C08", "C09", "C10", "C11", "C12"], seed, run, tier, avoid) {
            // radio faults are addressed by call position, and a removed frame shifts the positions: the twin
            // comparison is only meaningful without them
            for op in c.ops.iter_mut() {
                match op {
                    Op::Join(t) | Op::Send { txn: t, .. } => t.fault = None,
                    Op::Listen { fault, .. } => *fault = None,
                    _ => {}
                }
            }
            return c;
        }
        if let Some(mut c) = super::enum_generate("C07", run, tier) {
            for op in c.ops.iter_mut() {
                match op {
                    Op::Join(t) | Op::Send { txn: t, .. } => t.fault = None,
                    Op::Listen { fault, .. } => *fault = None,
                    _ => {}
                }
            }
            return c;
        }
        self.own_generate(seed, run, tier, avoid)
    }
    fn execute(&self, case: &MacCase, want_trace: bool) -> Outcome {
        let (w1, mut stats) = run_quiet(case);
        let mut trace = Vec::new();
        let finish_out = |violation: Option<Violation>, stats: RunStats, trace: Vec<String>| Outcome { violation, stats, trace };
        let (unspecified, panicked) = {
            let e = w1.env.borrow();
            (e.unspecified_seen > 0, w1.records.iter().any(|r| r.result.is_panic()))
        };
        if want_trace {
            trace.push("=== run S (with the rejected frames) ===".to_string());
            trace.extend(render_trace(&w1, &case.cfg));
        }
        if panicked && !unspecified {
            // A panic is an effect too: if the twin that never hears the rejected frames runs through, a frame the
            // device did not accept made it panic (panics that both runs share are C04's business).
            let cuts = oversize_cuts(&w1);
            let (twin, removed_total) = twin_of(case, &w1, &cuts);
            if removed_total > 0 {
                let (w2, _s2) = run_quiet(&twin);
                let twin_clean = w2.env.borrow().unspecified_seen == 0 && !w2.records.iter().any(|r| r.result.is_panic());
                if twin_clean {
                    if want_trace {
                        trace.push("=== twin run S' (frames the reference rejects removed) ===".to_string());
                        trace.extend(render_trace(&w2, &twin.cfg));
                    }
                    let rec = w1.records.iter().find(|r| r.result.is_panic()).unwrap();
                    stats.nontrivial = true;
                    let v = Violation::new(
                        "C07.trace-diverged",
                        &format!("panic|{:?}", case.cfg.frontend),
                        format!("operation #{} ({}) panicked: {}; the twin device that never received the rejected frames ran through", rec.idx, rec.op.kind(), rec.result.short()),
                    );
                    return finish_out(Some(v), stats, trace);
                }
            }
        }
        if unspecified || panicked {
            stats.bump(if panicked { "probe.foreign-panic" } else { "probe.stood-down-after-unspecified-frame" });
            return finish_out(None, stats, trace);
        }
        let cuts = oversize_cuts(&w1);
        let (twin, removed_total) = twin_of(case, &w1, &cuts);
        if removed_total == 0 {
            return finish_out(None, stats, trace);
        }
        let (w2, s2) = run_quiet(&twin);
        stats.sim_ms += s2.sim_ms;
        stats.steps += s2.steps;
        if want_trace {
            trace.push("=== twin run S' (frames the reference rejects removed; what an oversize frame cut off is not heard) ===".to_string());
            trace.extend(render_trace(&w2, &twin.cfg));
        }
        if w2.env.borrow().unspecified_seen > 0 || w2.records.iter().any(|r| r.result.is_panic()) {
            stats.bump("probe.twin-stood-down");
            return finish_out(None, stats, trace);
        }
        if cuts.iter().any(|c| c.is_some()) {
            stats.bump("probe.oversize-ended-procedure");
        }
        let first_diff = compare(case, &w1, &w2, &cuts);
        stats.nontrivial = true;
        stats.add("probe.rejected-frames-removed", removed_total as u64);
        {
            let e = w1.env.borrow();
            for d in e.delivered.iter() {
                match &d.verdict {
                    Verdict::Reject(why) => stats.bump(match *why {
                        "mic" => "probe.rejected.mic",
                        "counter-not-fresh" => "probe.rejected.replay-or-stale",
                        "unparseable" => "probe.rejected.unparseable",
                        "join-accept-invalid" => "probe.rejected.join-accept-invalid",
                        "join-accept-while-not-joining" => "probe.rejected.join-accept-while-joined",
                        "no-session" => "probe.rejected.data-while-joining",
                        _ => "probe.rejected.other",
                    }),
                    Verdict::Oversize => stats.bump("probe.rejected.oversize"),
                    _ => {}
                }
                if d.verdict.is_reject() {
                    if let Some(rec) = w1.records.get(d.op) {
                        if let Some(s) = &rec.snap_before {
                            if s.session.as_ref().map(|x| !x.pending.is_empty() || x.owed_ack).unwrap_or(false) {
                                stats.bump("probe.rejected-frame-with-state-to-lose");
                            }
                        }
                    }
                }
            }
        }
        let violation = first_diff.map(|(sig, msg)| {
            let inv = if sig.starts_with("state") { "C07.state-diverged" } else { "C07.trace-diverged" };
            Violation::new(inv, &sig, msg)
        });
        finish_out(violation, stats, trace)
    }
    fn self_test(&self) -> Result<(), String> {
        crate::self_test_refs()
    }
    fn expected_probes(&self, _tier: Tier) -> Vec<&'static str> {
        vec![
            "probe.rejected-frames-removed",
            "probe.rejected.mic",
            "probe.rejected.replay-or-stale",
            "probe.rejected.unparseable",
            "probe.rejected.join-accept-invalid",
            "probe.rejected.join-accept-while-joined",
            "probe.rejected.data-while-joining",
            "probe.rejected.oversize",
            "probe.rejected-frame-with-state-to-lose",
        ]
    }
}

impl C07 {
    pub fn own_generate(&self, seed: u64, run: u64, _tier: Tier, _avoid: &BTreeSet<String>) -> MacCase {
        let mut r = Rng::new(run_seed(seed, "C07", run));
        let cfg = gen_cfg(&mut r, &CfgProfile { frontends: ALL_FRONTENDS, otaa_pct: 35, boundary_counters_pct: 10, join_bias_pct: 20 });
        let mut cfg = cfg;
        if cfg.fcnt_up0 > 0xFFFF_0000 {
            cfg.fcnt_up0 = 7;
        }
        let nb = cfg.frontend == Frontend::Nb;
        let mut allow_oversize = r.chance(1, 3);
        let mut ops = Vec::new();
        if cfg.otaa {
            let mut t = Txn::default();
            if r.chance(1, 2) {
                t.rx1.push(gen_bad(&mut r, &cfg, &mut allow_oversize));
                if nb {
                    t.rx1.push(FrameSpec::JoinAccept(gen_ja_valid(&mut r, cfg.region)));
                } else {
                    t.rx2.push(FrameSpec::JoinAccept(gen_ja_valid(&mut r, cfg.region)));
                }
            } else {
                t.rx1.push(FrameSpec::JoinAccept(gen_ja_valid(&mut r, cfg.region)));
            }
            ops.push(Op::Join(t));
        }
        let n = r.range(3, 10) as usize;
        for _ in 0..n {
            if cfg.frontend == Frontend::AsyncC && !ops.is_empty() && r.chance(1, 6) && ops.iter().any(|o| matches!(o, Op::Send { .. })) {
                let k = r.range(1, 3);
                let frames = (0..k).map(|_| if r.chance(2, 3) { gen_bad(&mut r, &cfg, &mut false) } else { frame_ok(&mut r) }).collect();
                ops.push(Op::Listen { frames, fault: None });
                continue;
            }
            if cfg.otaa && r.chance(1, 10) {
                let mut t = Txn::default();
                t.rx1.push(gen_bad(&mut r, &cfg, &mut allow_oversize));
                if r.chance(1, 2) {
                    t.rx2.push(FrameSpec::JoinAccept(gen_ja_valid(&mut r, cfg.region)));
                }
                ops.push(Op::Join(t));
                continue;
            }
            let mut t = Txn::default();
            // what happens in the windows of this uplink
            match r.below(8) {
                0 | 1 => {
                    t.rx1.push(gen_setup_frame(&mut r, cfg.region));
                }
                2 => t.rx2.push(gen_setup_frame(&mut r, cfg.region)),
                3 | 4 => {
                    t.rx1.push(gen_bad(&mut r, &cfg, &mut allow_oversize));
                    if nb && r.chance(1, 2) {
                        t.rx1.push(gen_setup_frame(&mut r, cfg.region));
                    }
                }
                5 => {
                    t.rx1.push(gen_bad(&mut r, &cfg, &mut allow_oversize));
                    t.rx2.push(gen_bad(&mut r, &cfg, &mut allow_oversize));
                }
                6 => {
                    t.rx2.push(gen_bad(&mut r, &cfg, &mut allow_oversize));
                    if nb {
                        t.rx2.push(gen_setup_frame(&mut r, cfg.region));
                    }
                }
                _ => {}
            }
            if cfg.frontend == Frontend::AsyncC && r.chance(1, 3) {
                let f = if r.chance(2, 3) { gen_bad(&mut r, &cfg, &mut false) } else { frame_ok(&mut r) };
                if r.chance(1, 2) {
                    t.gap1.push(f);
                } else {
                    t.gap2.push(f);
                }
            }
            if nb {
                t.nb_deferred_tx = r.chance(1, 5);
                if r.chance(1, 8) {
                    t.nb_intrude = (r.range(1, 3) as u8) | ((r.below(3) as u8) << 2);
                }
            }
            ops.push(Op::Send { port: r.range(1, 223) as u8, len: send_len(&mut r), confirmed: r.chance(1, 4), txn: t });
        }
        // a few plain uplinks at the end make lost state visible
        for _ in 0..2 {
            ops.push(Op::Send { port: 1, len: 1, confirmed: false, txn: Txn::default() });
        }
        MacCase { cfg, ops, knob: 0 }
    }
}
