//! The simulated MAC world: one `Env` owns the clock, the ether, the reference
//! network server, the device RNG stream and the trace. `SimRadio`, `SimTimer`
//! and `SimRng` are the seams handed to the real device; they only talk to `Env`.

use crate::refcodec::{self as rc, SessionKeys};
use crate::refregion as rr;
use crate::script::*;
use lorawan_device::async_device::radio as aradio;
use lorawan_device::nb_device::radio as nradio;
use simcore::prng::{mix, Rng};
use std::cell::RefCell;
use std::rc::Rc;

pub type EnvRef = Rc<RefCell<Env>>;

pub const LIVELOCK_MARKER: &str = "SIM-LIVELOCK: device RNG draw budget exhausted";
pub const DRAW_BUDGET: u64 = 100_000;

#[derive(Clone, Copy, Debug, PartialEq, Eq)]
pub struct Rf {
    pub freq: u32,
    pub sf: u8,
    pub bw_khz: u16,
    pub cr: u8,
    pub max_payload_len: u8,
}

impl Rf {
    pub fn from_cfg(c: &aradio::RfConfig) -> Self {
        Rf { freq: c.frequency, sf: c.bb.sf.factor() as u8, bw_khz: (c.bb.bw.hz() / 1000) as u16, cr: c.bb.cr.denom() as u8, max_payload_len: c.max_payload_len }
    }
    pub fn short(&self) -> String {
        format!("{}Hz SF{}/BW{} max{}", self.freq, self.sf, self.bw_khz, self.max_payload_len)
    }
}

#[derive(Clone, Copy, Debug, PartialEq, Eq)]
pub enum Win {
    Gap1,
    Rx1,
    Gap2,
    Rx2,
    /// Class C idle listening (outside any transaction)
    Idle,
}

#[derive(Clone, Debug, PartialEq, Eq)]
pub enum Verdict {
    /// authentic, fresh, fits: the device must act on it with counter `n`
    Accept { n: u32, confirmed: bool, fport: Option<u8>, plain: Vec<u8>, fopts: Vec<u8>, ack: bool },
    /// valid JoinAccept for the pending JoinRequest
    JoinAccept(rc::JoinAccept),
    /// must not be acted upon
    Reject(&'static str),
    /// longer than the window's data rate allows: rejected, and may end the receive procedure
    Oversize,
    /// the property statements are silent on this kind of frame (never generated on purpose)
    Unspecified(&'static str),
}

impl Verdict {
    pub fn is_reject(&self) -> bool {
        matches!(self, Verdict::Reject(_))
    }
    pub fn short(&self) -> String {
        match self {
            Verdict::Accept { n, confirmed, fport, plain, fopts, .. } => {
                format!("Accept(n={n} conf={confirmed} port={fport:?} plain={}B fopts={}B)", plain.len(), fopts.len())
            }
            Verdict::JoinAccept(j) => format!("JoinAccept(addr={:08x} dl={:02x} rxdelay={} cflist={})", j.devaddr, j.dl_settings, j.rx_delay, j.cflist.is_some()),
            Verdict::Reject(r) => format!("Reject({r})"),
            Verdict::Oversize => "Oversize".into(),
            Verdict::Unspecified(r) => format!("Unspecified({r})"),
        }
    }
}

#[derive(Clone, Debug)]
pub struct Delivered {
    pub op: usize,
    pub win: Win,
    pub rf: Option<Rf>,
    pub bytes: Vec<u8>,
    pub verdict: Verdict,
    pub spec_kind: &'static str,
    /// index into `Env::trace` of the delivery event
    pub at: usize,
    /// reference `last_down` before this frame was judged
    pub last_before: Option<u32>,
    /// was a reference session present when the frame was judged
    pub joined_before: bool,
    /// position of the frame in its window's list in the script
    pub slot: usize,
}

/// Structured form of an nb_device response (for the oracles).
#[derive(Clone, Copy, Debug, PartialEq, Eq)]
pub enum RespCode {
    NoUpdate,
    TimeoutRequest(u32),
    UplinkSending,
    JoinSuccess,
    NoJoinAccept,
    Downlink(u32),
    NoAck,
    RxComplete,
    SessionExpired,
    ReadyToSend,
    ErrRadio,
    ErrState,
    ErrMac,
}

#[derive(Clone, Debug)]
pub enum Ev {
    OpStart { idx: usize, desc: String },
    OpEnd { idx: usize, result: String },
    Tx { pw: i8, rf: Rf, bytes: Vec<u8>, ok: bool, ret_ms: u32, pos: u16 },
    SetupRx { rf: Rf, single_ms: Option<u32>, ok: bool, pos: u16 },
    RxSingle { outcome: String, pos: u16 },
    RxCont { outcome: String, pos: u16 },
    LowPower { ok: bool, pos: u16 },
    TimerReset { now: u64 },
    TimerAt { ms: u64, now_after: u64 },
    TimerDelay { ms: u64 },
    NbTxRequest { pw: i8, rf: Rf, bytes: Vec<u8>, outcome: String, pos: u16 },
    NbRxRequest { rf: Rf, ok: bool, pos: u16 },
    NbCancelRx { ok: bool, pos: u16 },
    NbPhy { what: String, pos: u16 },
    NbEvent { ev: String, resp: String, now: u64, code: RespCode },
    Deliver { win: Win, len: usize, verdict: String, spec: &'static str },
    Downlink { port: u8, data: Vec<u8> },
    Fault { kind: &'static str, pos: u16 },
    Reseed { op: usize },
    Note(String),
}

impl Ev {
    pub fn kind(&self) -> &'static str {
        match self {
            Ev::OpStart { .. } => "OpStart",
            Ev::OpEnd { .. } => "OpEnd",
            Ev::Tx { .. } => "Tx",
            Ev::SetupRx { .. } => "SetupRx",
            Ev::RxSingle { .. } => "RxSingle",
            Ev::RxCont { .. } => "RxCont",
            Ev::LowPower { .. } => "LowPower",
            Ev::TimerReset { .. } => "TimerReset",
            Ev::TimerAt { .. } => "TimerAt",
            Ev::TimerDelay { .. } => "TimerDelay",
            Ev::NbTxRequest { .. } => "NbTxRequest",
            Ev::NbRxRequest { .. } => "NbRxRequest",
            Ev::NbCancelRx { .. } => "NbCancelRx",
            Ev::NbPhy { .. } => "NbPhy",
            Ev::NbEvent { .. } => "NbEvent",
            Ev::Deliver { .. } => "Deliver",
            Ev::Downlink { .. } => "Downlink",
            Ev::Fault { .. } => "Fault",
            Ev::Reseed { .. } => "Reseed",
            Ev::Note(_) => "Note",
        }
    }
    pub fn line(&self) -> String {
        fn hx(b: &[u8]) -> String {
            b.iter().map(|x| format!("{x:02x}")).collect()
        }
        match self {
            Ev::OpStart { idx, desc } => format!("op#{idx} START {desc}"),
            Ev::OpEnd { idx, result } => format!("op#{idx} END   {result}"),
            Ev::Tx { pw, rf, bytes, ok, ret_ms, pos } => format!("  [{pos}] tx pw={pw} {} ok={ok} ret_ms={ret_ms} bytes={}", rf.short(), hx(bytes)),
            Ev::SetupRx { rf, single_ms, ok, pos } => format!("  [{pos}] setup_rx {} mode={} ok={ok}", rf.short(), single_ms.map(|m| format!("single({m})")).unwrap_or("continuous".into())),
            Ev::RxSingle { outcome, pos } => format!("  [{pos}] rx_single -> {outcome}"),
            Ev::RxCont { outcome, pos } => format!("  [{pos}] rx_continuous -> {outcome}"),
            Ev::LowPower { ok, pos } => format!("  [{pos}] low_power ok={ok}"),
            Ev::TimerReset { now } => format!("  timer.reset now={now}"),
            Ev::TimerAt { ms, now_after } => format!("  timer.at({ms}) now={now_after}"),
            Ev::TimerDelay { ms } => format!("  timer.delay({ms})"),
            Ev::NbTxRequest { pw, rf, bytes, outcome, pos } => format!("  [{pos}] TxRequest pw={pw} {} -> {outcome} bytes={}", rf.short(), hx(bytes)),
            Ev::NbRxRequest { rf, ok, pos } => format!("  [{pos}] RxRequest {} ok={ok}", rf.short()),
            Ev::NbCancelRx { ok, pos } => format!("  [{pos}] CancelRx ok={ok}"),
            Ev::NbPhy { what, pos } => format!("  [{pos}] Phy {what}"),
            Ev::NbEvent { ev, resp, now, .. } => format!("  t={now} event {ev} -> {resp}"),
            Ev::Deliver { win, len, verdict, spec } => format!("  ether delivers {spec} frame ({len}B) in {win:?}: reference says {verdict}"),
            Ev::Downlink { port, data } => format!("  app takes downlink port={port} data={}", hx(data)),
            Ev::Fault { kind, pos } => format!("  FAULT {kind} at radio call {pos}"),
            Ev::Reseed { op } => format!("  device rng reseeded for op#{op}"),
            Ev::Note(s) => format!("  note: {s}"),
        }
    }
}

#[derive(Clone, Debug)]
pub struct Identity {
    pub appkey: [u8; 16],
    pub deveui: [u8; 8],
    pub appeui: [u8; 8],
    pub abp: SessionKeys,
    pub foreign: SessionKeys,
    pub wrong_nwk: [u8; 16],
}

impl Identity {
    /// Switch between the two sets of OTAA credentials the application may provision (an involution).
    pub fn toggle_alt(&mut self) {
        for b in self.appkey.iter_mut() {
            *b ^= 0x5A;
        }
        for b in self.deveui.iter_mut() {
            *b ^= 0xA5;
        }
        for b in self.appeui.iter_mut() {
            *b ^= 0x3C;
        }
    }
    pub fn from_seed(seed: u64) -> Self {
        let mut r = Rng::derive(seed, "identity", 0);
        let k = |r: &mut Rng| -> [u8; 16] { r.bytes(16).try_into().unwrap() };
        let appkey = k(&mut r);
        let nwk = k(&mut r);
        let app = k(&mut r);
        let fnwk = k(&mut r);
        let fapp = k(&mut r);
        let wrong_nwk = k(&mut r);
        let deveui: [u8; 8] = r.bytes(8).try_into().unwrap();
        let appeui: [u8; 8] = r.bytes(8).try_into().unwrap();
        let devaddr = r.next_u32();
        let mut faddr = r.next_u32();
        if faddr == devaddr {
            faddr ^= 1;
        }
        Identity { appkey, deveui, appeui, abp: SessionKeys { nwk, app, devaddr }, foreign: SessionKeys { nwk: fnwk, app: fapp, devaddr: faddr }, wrong_nwk }
    }
}

/// Reference view of the session (the network server's side + what the device must have accepted).
#[derive(Clone, Debug)]
pub struct RefSession {
    pub keys: SessionKeys,
    /// last downlink counter the reference model saw accepted
    pub last_down: Option<u32>,
}

#[derive(Clone, Debug)]
pub struct PendingJoin {
    pub dev_nonce: [u8; 2],
}

#[derive(Clone, Copy, Debug, PartialEq, Eq)]
pub enum Phase {
    Idle,
    Gap1,
    Rx1,
    Gap2,
    Rx2,
    Done,
}

pub struct Env {
    pub cfg: WorldCfg,
    pub id: Identity,
    pub refs: Option<RefSession>,
    pub pending_join: Option<PendingJoin>,
    pub sent_down: Vec<Vec<u8>>,
    /// every frame the device handed to the radio in this run (for reflected copies)
    pub sent_up: Vec<Vec<u8>>,
    /// number of delivered frames the property statements are silent about (oracles stand down)
    pub unspecified_seen: u64,
    /// full-stack configuration: (kind, detail, message) of every disagreement between what the MAC handed to the
    /// radio and what the real driver programmed into the chip, and of chip-model alerts
    pub stack_alerts: Vec<(&'static str, String, String)>,
    /// nb restore: (data rate, ADR) the application applies to the fresh device *before* it installs the session
    pub restore_settings_first: Option<(u8, bool)>,
    /// size of the device's own radio buffer (frames longer than it are outside every statement)
    pub device_buf_cap: usize,
    /// the device was restored from a structurally mutated document (only panic-freedom is judged)
    pub mutated_session: bool,
    pub delivered: Vec<Delivered>,
    pub trace: Vec<Ev>,
    pub now_ms: u64,
    pub timer_base: u64,
    pub sim_events: u64,
    // current op
    pub op_idx: usize,
    pub phase: Phase,
    pub pos: u16,
    pub txn: Txn,
    pub listen_frames: Vec<FrameSpec>,
    pub cursor: [usize; 5],
    pub fault: Option<Fault>,
    pub fault_fired: u32,
    /// last rf config given to setup_rx / RxRequest
    pub cur_rx: Option<Rf>,
    pub cur_rx_continuous: bool,
    /// set by rx_continuous when nothing is left to deliver (the future stays pending)
    pub rxc_idle: bool,
    /// waits (radio calls and timer waits) of the current operation counted so far (cancellation points)
    pub await_idx: u16,
    /// the scripted cancellation point was reached: the wait stays pending and the harness drops the future
    pub cancel_hit: bool,
    // device rng
    pub rng: Rng,
    pub draws_in_call: u64,
    pub draws_total: u64,
    pub forced_draws: std::collections::VecDeque<u32>,
    // nb radio buffer
    pub nb_rx_buf: Vec<u8>,
    pub nb_deferred_tx_pending: bool,
    // counters for evidence
    pub counters: std::collections::BTreeMap<&'static str, u64>,
}

impl Env {
    pub fn new(cfg: &WorldCfg) -> EnvRef {
        let id = Identity::from_seed(cfg.key_seed);
        let refs = if cfg.otaa { None } else { Some(RefSession { keys: id.abp, last_down: cfg.fcnt_down0 }) };
        Rc::new(RefCell::new(Env {
            cfg: cfg.clone(),
            id,
            refs,
            pending_join: None,
            sent_down: Vec::new(),
            sent_up: Vec::new(),
            unspecified_seen: 0,
            stack_alerts: Vec::new(),
            restore_settings_first: None,
            device_buf_cap: 256,
            mutated_session: false,
            delivered: Vec::new(),
            trace: Vec::new(),
            now_ms: clock_start_ms(cfg.clock_epoch),
            timer_base: clock_start_ms(cfg.clock_epoch),
            sim_events: 0,
            op_idx: 0,
            phase: Phase::Idle,
            pos: 0,
            txn: Txn::default(),
            listen_frames: Vec::new(),
            cursor: [0; 5],
            fault: None,
            fault_fired: 0,
            cur_rx: None,
            cur_rx_continuous: false,
            rxc_idle: false,
            await_idx: 0,
            cancel_hit: false,
            rng: Rng::new(mix(cfg.dev_seed, "devrng", 0)),
            draws_in_call: 0,
            draws_total: 0,
            forced_draws: Default::default(),
            nb_rx_buf: Vec::new(),
            nb_deferred_tx_pending: false,
            counters: Default::default(),
        }))
    }

    pub fn bump(&mut self, k: &'static str) {
        *self.counters.entry(k).or_insert(0) += 1;
    }

    pub fn push(&mut self, ev: Ev) {
        self.sim_events += 1;
        self.trace.push(ev);
    }

    /// Start an application-level operation: reseed the device RNG from (dev_seed, op index) so that
    /// the number of draws one operation makes cannot desynchronise later ones.
    pub fn begin_op(&mut self, idx: usize, txn: Option<&Txn>, listen: Option<(&[FrameSpec], &Option<Fault>)>, desc: String) {
        self.op_idx = idx;
        self.pos = 0;
        self.cursor = [0; 5];
        self.phase = Phase::Idle;
        self.rxc_idle = false;
        self.await_idx = 0;
        self.cancel_hit = false;
        self.txn = txn.cloned().unwrap_or_default();
        self.fault = self.txn.fault.clone();
        self.listen_frames.clear();
        if let Some((frames, fault)) = listen {
            self.listen_frames = frames.to_vec();
            self.fault = fault.clone();
        }
        self.rng = Rng::new(mix(self.cfg.dev_seed, "devrng-op", idx as u64));
        if let Some((v, k)) = self.txn.rng_stuck {
            for _ in 0..k {
                self.forced_draws.push_back(v);
            }
            self.bump("fault.rng-stuck");
        }
        self.draws_in_call = 0;
        self.push(Ev::OpStart { idx, desc });
    }

    pub fn end_op(&mut self, result: String) {
        let idx = self.op_idx;
        self.push(Ev::OpEnd { idx, result });
        self.phase = Phase::Idle;
        self.fault = None;
    }

    /// A wait of the current operation begins (a radio call that has just taken effect, a receive window about to
    /// open, a timer wait): true when the application abandons the operation here (the wait then never completes).
    pub fn cancel_check(&mut self, what: &'static str) -> bool {
        let k = self.await_idx;
        self.await_idx += 1;
        if self.cancel_hit {
            return true;
        }
        if self.txn.cancel_at == Some(k) {
            self.cancel_hit = true;
            self.bump("fault.cancel");
            self.bump(what);
            self.push(Ev::Fault { kind: what, pos: k });
            return true;
        }
        false
    }

    /// Next radio-call position; returns true when the scripted fault hits this call.
    fn next_pos(&mut self, kind: &'static str) -> (u16, bool) {
        let p = self.pos;
        self.pos += 1;
        let hit = matches!(&self.fault, Some(f) if f.pos <= p && p <= f.pos + f.extra);
        if hit {
            if matches!(&self.fault, Some(f) if p >= f.pos + f.extra) {
                self.fault = None;
            } else {
                self.bump("fault.outage-continues");
            }
            self.fault_fired += 1;
            self.bump(kind);
            self.push(Ev::Fault { kind, pos: p });
        }
        (p, hit)
    }

    fn win_index(w: Win) -> usize {
        match w {
            Win::Gap1 => 0,
            Win::Rx1 => 1,
            Win::Gap2 => 2,
            Win::Rx2 => 3,
            Win::Idle => 4,
        }
    }

    /// Take the next scripted frame for the window, if any.
    pub fn next_frame(&mut self, w: Win) -> Option<FrameSpec> {
        let i = Self::win_index(w);
        let list: &Vec<FrameSpec> = match w {
            Win::Gap1 => &self.txn.gap1,
            Win::Rx1 => &self.txn.rx1,
            Win::Gap2 => &self.txn.gap2,
            Win::Rx2 => &self.txn.rx2,
            Win::Idle => &self.listen_frames,
        };
        let c = self.cursor[i];
        if c < list.len() {
            self.cursor[i] += 1;
            Some(list[c].clone())
        } else {
            None
        }
    }

    /// Record a transmitted frame; keeps the reference join state up to date.
    fn note_uplink(&mut self, bytes: &[u8]) {
        self.sent_up.push(bytes.to_vec());
        if let Some(jr) = rc::parse_join_request(bytes) {
            // a JoinRequest discards the session on the device side; the network forgets it too
            self.pending_join = Some(PendingJoin { dev_nonce: jr.dev_nonce });
            self.refs = None;
        }
    }

    // ----- materialisation (reference network server) -----

    pub fn materialise(&mut self, spec: &FrameSpec) -> Vec<u8> {
        let bytes = match spec {
            FrameSpec::Raw(b) => b.clone(),
            FrameSpec::Replay(k) => {
                if self.sent_down.is_empty() {
                    vec![0x60, 0, 0, 0, 0, 0, 0, 0, 0, 0, 0, 0]
                } else {
                    self.sent_down[*k as usize % self.sent_down.len()].clone()
                }
            }
            FrameSpec::Echo(k) => {
                if self.sent_up.is_empty() {
                    vec![0x40, 0, 0, 0, 0, 0, 0, 0, 0, 0, 0, 0]
                } else {
                    self.bump("fault.uplink-reflected");
                    self.sent_up[self.sent_up.len() - 1 - (*k as usize % self.sent_up.len())].clone()
                }
            }
            FrameSpec::Data(d) => self.materialise_data(d),
            FrameSpec::JoinAccept(j) => self.materialise_ja(j),
        };
        let mut bytes = bytes;
        bytes.truncate(255);
        if !matches!(spec, FrameSpec::Replay(_) | FrameSpec::Echo(_)) {
            self.sent_down.push(bytes.clone());
        }
        bytes
    }

    fn materialise_data(&mut self, d: &DataSpec) -> Vec<u8> {
        let (mut keys, last) = match &self.refs {
            Some(s) => (s.keys, s.last_down),
            // no session on the network side: frames for a device that is not joined are built
            // under the ABP identity (they can only ever be rejected)
            None => (self.id.abp, None),
        };
        if d.tamper == Tamper::ForeignSession {
            keys = self.id.foreign;
        }
        let n: u32 = match d.fcnt {
            Fcnt::Abs(n) => n,
            Fcnt::Rel(k) => {
                let base: i64 = last.map(|l| l as i64).unwrap_or(-1);
                (base + k).clamp(0, u32::MAX as i64) as u32
            }
        };
        let (fport, frm) = match &d.body {
            Body::None => (None, vec![]),
            Body::Port0(m) => (Some(0u8), encode_macs(m)),
            Body::Data { port, len } => {
                let mut r = Rng::new(mix(self.cfg.key_seed, "dlpayload", ((self.sent_down.len() as u64) << 8) | *len as u64));
                (Some(*port), r.bytes(*len as usize))
            }
        };
        let mut fopts = encode_macs(&d.fopts);
        fopts.truncate(15);
        let frame = rc::DataFrame {
            mtype: if d.confirmed { rc::MTYPE_CONF_DOWN } else { rc::MTYPE_UNCONF_DOWN },
            devaddr: keys.devaddr,
            adr: d.adr,
            bit6: false,
            ack: d.ack,
            bit4: d.fpending,
            fcnt16: n as u16,
            fopts,
            fport,
            frm,
        };
        let mic_n = match d.tamper {
            Tamper::MicEpoch(e) => (n as i64 + 0x1_0000 * e as i64).clamp(0, u32::MAX as i64) as u32,
            _ => n,
        };
        let mut mic_keys = keys;
        if d.tamper == Tamper::WrongNwkKey {
            mic_keys.nwk = self.id.wrong_nwk;
        }
        // payload encryption always uses the true counter; the MIC may be computed for another epoch
        let mut bytes = rc::build_data(&frame, n, &keys);
        if mic_n != n || d.tamper == Tamper::WrongNwkKey {
            let body_len = bytes.len() - 4;
            let mic = rc::data_mic(&mic_keys.nwk, rc::DIR_DOWN, keys.devaddr, mic_n, &bytes[..body_len]);
            bytes[body_len..].copy_from_slice(&mic);
        }
        if let Tamper::Resigned { offset, xor } = d.tamper {
            let body_len = bytes.len() - 4;
            let at = offset as usize % body_len;
            bytes[at] ^= xor;
            // the MIC a network server would compute for exactly these bytes (direction and address as the frame
            // now states them, full counter as the receiver will reconstruct it from the wire value)
            let (dir, addr, n16) = match rc::parse_data(&bytes) {
                Some(p) => (p.dir(), p.devaddr, p.fcnt16),
                None => (rc::DIR_DOWN, u32::from_le_bytes([bytes[1], bytes[2], bytes[3], bytes[4]]), u16::from_le_bytes([bytes[6], bytes[7]])),
            };
            let last = self.refs.as_ref().and_then(|r| r.last_down);
            let n_rx = if n16 == n as u16 { n } else { cand_counter(last, n16).unwrap_or(n16 as u32) };
            let mic = rc::data_mic(&keys.nwk, dir, addr, n_rx, &bytes[..body_len]);
            bytes[body_len..].copy_from_slice(&mic);
        }
        apply_tamper(&mut bytes, &d.tamper);
        bytes
    }

    fn materialise_ja(&mut self, j: &JaSpec) -> Vec<u8> {
        let ja = rc::JoinAccept {
            join_nonce: [j.join_nonce as u8, (j.join_nonce >> 8) as u8, (j.join_nonce >> 16) as u8],
            net_id: [j.net_id as u8, (j.net_id >> 8) as u8, (j.net_id >> 16) as u8],
            devaddr: j.devaddr,
            dl_settings: j.dl_settings,
            rx_delay: j.rx_delay,
            cflist: j.cflist.as_ref().map(|c| {
                let mut a = [0u8; 16];
                for (i, b) in c.iter().take(16).enumerate() {
                    a[i] = *b;
                }
                a
            }),
        };
        let key = if matches!(j.tamper, Tamper::WrongNwkKey | Tamper::ForeignSession) { self.id.wrong_nwk } else { self.id.appkey };
        let mut bytes = rc::build_join_accept(&key, &ja);
        apply_tamper(&mut bytes, &j.tamper);
        bytes
    }

    // ----- judging (reference acceptance predicate) -----

    /// Decide, from the bytes alone and the reference session, what the device must do with a frame
    /// heard in a window opened with `rf`. Advances the reference state when the verdict is Accept.
    pub fn judge(&mut self, bytes: &[u8], rf: Option<Rf>, class_a_window: bool) -> Verdict {
        // size limit of the data rate the window was opened at
        let max_mac = rf.and_then(|rf| rr::max_mac_for(self.cfg.region, rf.sf, rf.bw_khz));
        if bytes.is_empty() {
            return Verdict::Reject("empty");
        }
        let mtype = bytes[0] >> 5;
        if mtype == rc::MTYPE_JOIN_ACCEPT {
            if let Some(pj) = &self.pending_join {
                if !class_a_window {
                    return Verdict::Unspecified("join-accept outside RX1/RX2");
                }
                return match rc::open_join_accept(&self.id.appkey, bytes) {
                    Some(ja) => {
                        let (nwk, app) = rc::derive_session_keys(&self.id.appkey, &ja.join_nonce, &ja.net_id, &pj.dev_nonce);
                        self.refs = Some(RefSession { keys: SessionKeys { nwk, app, devaddr: ja.devaddr }, last_down: None });
                        self.pending_join = None;
                        Verdict::JoinAccept(ja)
                    }
                    None => Verdict::Reject("join-accept-invalid"),
                };
            }
            return Verdict::Reject("join-accept-while-not-joining");
        }
        let Some(p) = rc::parse_data(bytes) else {
            return Verdict::Reject("unparseable");
        };
        // size check first: an oversize frame may end the procedure whether authentic or not
        if let Some(m) = max_mac {
            if bytes.len() > m as usize + 5 {
                return Verdict::Oversize;
            }
        }
        let Some(sess) = &self.refs else {
            return Verdict::Reject("no-session");
        };
        if rf.is_none() {
            return Verdict::Unspecified("no-window-configured");
        }
        if p.is_uplink() {
            // Uplink message types travel from device to network only. A frame of that type heard by the device is
            // not a downlink of its network server, whatever its MIC: the MIC of a downlink is computed with the
            // downlink direction bit, so the device's own reflected uplink is not authentic.
            return Verdict::Reject("uplink-type");
        }
        let Some(n) = cand_counter(sess.last_down, p.fcnt16) else {
            return Verdict::Reject("counter-not-fresh");
        };
        if !rc::mic_ok(bytes, &p, &sess.keys.nwk, n) {
            return Verdict::Reject("mic");
        }
        if p.major != 0 {
            return Verdict::Unspecified("major-version");
        }
        if p.devaddr != sess.keys.devaddr {
            return Verdict::Unspecified("own-key-other-address");
        }
        if p.fport == Some(0) && !p.fopts.is_empty() {
            return Verdict::Unspecified("fopts-with-port0");
        }
        if rf.is_some() && max_mac.is_none() {
            return Verdict::Unspecified("window-datarate-undefined");
        }
        let plain = rc::decrypt_frm(&p, &sess.keys, n);
        let v = Verdict::Accept { n, confirmed: p.is_confirmed(), fport: p.fport, plain, fopts: p.fopts.clone(), ack: p.ack() };
        self.refs.as_mut().unwrap().last_down = Some(n);
        v
    }

    /// Deliver a scripted frame into `buf`; returns its length.
    pub fn deliver(&mut self, spec: &FrameSpec, win: Win, buf: &mut [u8]) -> usize {
        let bytes = self.materialise(spec);
        let rf = self.cur_rx;
        let class_a = matches!(win, Win::Rx1 | Win::Rx2);
        let last_before = self.refs.as_ref().and_then(|s| s.last_down);
        let joined_before = self.refs.is_some();
        let verdict = if bytes.len() > buf.len().min(self.device_buf_cap) {
            // the application chose a radio buffer that cannot hold this frame: nothing is specified
            Verdict::Unspecified("frame-longer-than-radio-buffer")
        } else {
            self.judge(&bytes, rf, class_a)
        };
        let n = bytes.len().min(buf.len());
        buf[..n].copy_from_slice(&bytes[..n]);
        if matches!(verdict, Verdict::Unspecified(_)) {
            self.unspecified_seen += 1;
        }
        let at = self.trace.len();
        self.push(Ev::Deliver { win, len: bytes.len(), verdict: verdict.short(), spec: spec.kind() });
        let op = self.op_idx;
        let slot = self.cursor[Self::win_index(win)].saturating_sub(1);
        self.delivered.push(Delivered { op, win, rf, bytes, verdict, spec_kind: spec.kind(), at, last_before, joined_before, slot });
        n
    }

    // ----- async radio -----

    // Every radio call is split in two: `*_begin` takes the scripted decision for this call position (fault?)
    // and `*_end` records the event with the outcome the radio produced. The stub radio (`SimRadio`) calls both
    // back to back; the full-stack radio (`stack::StackRadio`) runs the real lora-phy call in between.

    pub fn a_tx_begin(&mut self, _config: &aradio::TxConfig, buf: &[u8]) -> (u16, bool) {
        let (pos, hit) = self.next_pos("fault.tx");
        self.note_uplink(buf);
        self.phase = Phase::Gap1;
        self.cur_rx = None;
        (pos, hit)
    }

    pub fn a_tx_end(&mut self, config: &aradio::TxConfig, buf: &[u8], pos: u16, ok: bool, ret_ms: u32) {
        let rf = Rf::from_cfg(&config.rf);
        self.push(Ev::Tx { pw: config.pw, rf, bytes: buf.to_vec(), ok, ret_ms, pos });
        if ok {
            // time on air passes
            self.now_ms += 50;
        }
    }

    fn a_tx(&mut self, config: aradio::TxConfig, buf: &[u8]) -> Result<u32, SimRadioError> {
        let (pos, hit) = self.a_tx_begin(&config, buf);
        let ret_ms = self.txn.tx_ms;
        self.a_tx_end(&config, buf, pos, !hit, ret_ms);
        if hit {
            return Err(SimRadioError::Injected);
        }
        Ok(ret_ms)
    }

    pub fn a_setup_rx_begin(&mut self) -> (u16, bool) {
        self.next_pos("fault.setup_rx")
    }

    pub fn a_setup_rx_end(&mut self, config: &aradio::RxConfig, pos: u16, ok: bool) {
        let rf = Rf::from_cfg(&config.rf);
        let single_ms = match config.mode {
            aradio::RxMode::Single { ms } => Some(ms),
            aradio::RxMode::Continuous => None,
        };
        self.push(Ev::SetupRx { rf, single_ms, ok, pos });
        if ok {
            self.cur_rx = Some(rf);
            self.cur_rx_continuous = single_ms.is_none();
        }
    }

    fn a_setup_rx(&mut self, config: aradio::RxConfig) -> Result<(), SimRadioError> {
        let (pos, hit) = self.a_setup_rx_begin();
        self.a_setup_rx_end(&config, pos, !hit);
        if hit {
            return Err(SimRadioError::Injected);
        }
        Ok(())
    }

    pub fn a_rx_single_begin(&mut self) -> (u16, bool, Win) {
        let (pos, hit) = self.next_pos("fault.rx_single");
        let win = match self.phase {
            Phase::Gap1 | Phase::Rx1 => Win::Rx1,
            _ => Win::Rx2,
        };
        self.phase = if win == Win::Rx1 { Phase::Gap2 } else { Phase::Done };
        (pos, hit, win)
    }

    /// What the ether does in this single-shot window: `Some(n)` = a frame of n bytes (written to `buf`, judged
    /// by the reference), `None` = silence.
    pub fn a_rx_single_decide(&mut self, win: Win, buf: &mut [u8]) -> Option<usize> {
        let spec = self.next_frame(win)?;
        Some(self.deliver(&spec, win, buf))
    }

    pub fn a_rx_single_end(&mut self, pos: u16, outcome: String) {
        self.push(Ev::RxSingle { outcome, pos });
    }

    fn a_rx_single(&mut self, buf: &mut [u8]) -> Result<aradio::RxStatus, SimRadioError> {
        let (pos, hit, win) = self.a_rx_single_begin();
        if hit {
            self.a_rx_single_end(pos, "Err".into());
            return Err(SimRadioError::Injected);
        }
        match self.a_rx_single_decide(win, buf) {
            Some(n) => {
                self.a_rx_single_end(pos, format!("Rx({n})"));
                {
                    let (rssi, snr) = rx_quality(&buf[..n.min(buf.len())]);
                    Ok(aradio::RxStatus::Rx(n, aradio::RxQuality::new(rssi, snr)))
                }
            }
            None => {
                self.a_rx_single_end(pos, "RxTimeout".into());
                Ok(aradio::RxStatus::RxTimeout)
            }
        }
    }

    /// What the ether has for a continuous listener right now: `None` = nothing (the listener stays pending),
    /// `Some((pos, Err))` = the scripted fault hits this call, `Some((pos, Ok(n)))` = a frame of n bytes in `buf`.
    pub fn a_rx_continuous_decide(&mut self, buf: &mut [u8]) -> Option<(u16, Result<usize, ()>)> {
        let win = match self.phase {
            Phase::Gap1 => Win::Gap1,
            Phase::Gap2 => Win::Gap2,
            Phase::Idle | Phase::Done => Win::Idle,
            Phase::Rx1 => Win::Gap1,
            Phase::Rx2 => Win::Gap2,
        };
        // is there anything to deliver or a fault to fire at this position?
        let has_frame = {
            let i = Self::win_index(win);
            let len = match win {
                Win::Gap1 => self.txn.gap1.len(),
                Win::Gap2 => self.txn.gap2.len(),
                Win::Idle => self.listen_frames.len(),
                _ => 0,
            };
            self.cursor[i] < len
        };
        let fault_here = matches!(&self.fault, Some(f) if f.pos <= self.pos && self.pos <= f.pos + f.extra);
        if !has_frame && !fault_here {
            self.rxc_idle = true;
            return None;
        }
        let (pos, hit) = self.next_pos("fault.rx_continuous");
        if hit {
            return Some((pos, Err(())));
        }
        let spec = self.next_frame(win).unwrap();
        let n = self.deliver(&spec, win, buf);
        Some((pos, Ok(n)))
    }

    pub fn a_rx_continuous_end(&mut self, pos: u16, outcome: String) {
        self.push(Ev::RxCont { outcome, pos });
    }

    /// `Some(result)` when something is heard (or a fault fires), `None` when the listener stays pending.
    fn a_rx_continuous(&mut self, buf: &mut [u8]) -> Option<Result<(usize, aradio::RxQuality), SimRadioError>> {
        match self.a_rx_continuous_decide(buf)? {
            (pos, Err(())) => {
                self.a_rx_continuous_end(pos, "Err".into());
                Some(Err(SimRadioError::Injected))
            }
            (pos, Ok(n)) => {
                self.a_rx_continuous_end(pos, format!("Rx({n})"));
                {
                    let (rssi, snr) = rx_quality(&buf[..n.min(buf.len())]);
                    Some(Ok((n, aradio::RxQuality::new(rssi, snr))))
                }
            }
        }
    }

    pub fn a_low_power_begin(&mut self) -> (u16, bool) {
        self.next_pos("fault.low_power")
    }

    pub fn a_low_power_end(&mut self, pos: u16, ok: bool) {
        self.push(Ev::LowPower { ok, pos });
    }

    fn a_low_power(&mut self) -> Result<(), SimRadioError> {
        let (pos, hit) = self.a_low_power_begin();
        self.a_low_power_end(pos, !hit);
        if hit {
            return Err(SimRadioError::Injected);
        }
        Ok(())
    }

    // ----- nb radio -----

    fn nb_event(&mut self, event: nradio::Event<'_, SimRadioDyn>) -> Result<nradio::Response<SimRadioDyn>, SimRadioError> {
        match event {
            nradio::Event::TxRequest(cfg, buf) => {
                let (pos, hit) = self.next_pos("fault.nb_tx_request");
                let rf = Rf::from_cfg(&cfg.rf);
                self.note_uplink(buf);
                self.phase = Phase::Gap1;
                self.cur_rx = None;
                if hit {
                    self.push(Ev::NbTxRequest { pw: cfg.pw, rf, bytes: buf.to_vec(), outcome: "Err".into(), pos });
                    return Err(SimRadioError::Injected);
                }
                if self.txn.nb_tx_declined != 0 {
                    // neither an error nor a transmission: the radio declined
                    let idle = self.txn.nb_tx_declined == 1;
                    self.bump("fault.nb-tx-declined");
                    self.push(Ev::NbTxRequest { pw: cfg.pw, rf, bytes: buf.to_vec(), outcome: if idle { "Idle (declined)".into() } else { "Rxing (declined)".into() }, pos });
                    return Ok(if idle { nradio::Response::Idle } else { nradio::Response::Rxing });
                }
                if self.txn.nb_deferred_tx {
                    self.nb_deferred_tx_pending = true;
                    self.push(Ev::NbTxRequest { pw: cfg.pw, rf, bytes: buf.to_vec(), outcome: "Txing".into(), pos });
                    Ok(nradio::Response::Txing)
                } else {
                    self.now_ms += self.txn.tx_ms as u64;
                    let ts = self.now_ms as u32;
                    self.push(Ev::NbTxRequest { pw: cfg.pw, rf, bytes: buf.to_vec(), outcome: format!("TxDone({ts})"), pos });
                    Ok(nradio::Response::TxDone(ts))
                }
            }
            nradio::Event::RxRequest(rfc) => {
                let (pos, hit) = self.next_pos("fault.nb_rx_request");
                let rf = Rf::from_cfg(&rfc);
                self.push(Ev::NbRxRequest { rf, ok: !hit, pos });
                if hit {
                    return Err(SimRadioError::Injected);
                }
                self.cur_rx = Some(rf);
                Ok(nradio::Response::Rxing)
            }
            nradio::Event::CancelRx => {
                let (pos, hit) = self.next_pos("fault.nb_cancel_rx");
                self.push(Ev::NbCancelRx { ok: !hit, pos });
                if hit {
                    return Err(SimRadioError::Injected);
                }
                Ok(nradio::Response::Idle)
            }
            nradio::Event::Phy(pe) => {
                let (pos, hit) = self.next_pos("fault.nb_phy");
                if hit {
                    self.push(Ev::NbPhy { what: format!("{pe:?} -> Err"), pos });
                    return Err(SimRadioError::Injected);
                }
                match pe {
                    NbPhyEvent::TxComplete => {
                        self.nb_deferred_tx_pending = false;
                        self.now_ms += self.txn.tx_ms as u64;
                        let ts = self.now_ms as u32;
                        self.push(Ev::NbPhy { what: format!("TxComplete -> TxDone({ts})"), pos });
                        Ok(nradio::Response::TxDone(ts))
                    }
                    NbPhyEvent::FrameReady => {
                        self.push(Ev::NbPhy { what: format!("FrameReady({}) -> RxDone", self.nb_rx_buf.len()), pos });
                        {
                            let (rssi, snr) = rx_quality(&self.nb_rx_buf);
                            Ok(nradio::Response::RxDone(nradio::RxQuality::new(rssi, snr)))
                        }
                    }
                    NbPhyEvent::Noise => {
                        self.push(Ev::NbPhy { what: "Noise -> Idle".into(), pos });
                        Ok(nradio::Response::Idle)
                    }
                }
            }
        }
    }
}

/// The 16-bit to 32-bit reconstruction of the property statement: the unique N with
/// N = wire (mod 2^16) and last < N <= last + 16384 (any wire value for the first downlink).
/// Signal quality the stub radio reports for a received frame: a function of the frame's bytes (so that twin runs
/// report the same quality for the same frame), covering the extremes of the value range (the SNR feeds the
/// DevStatusAns margin, a 6-bit field).
pub fn rx_quality(bytes: &[u8]) -> (i16, i8) {
    let mut h = simcore::Fnv::new();
    h.bytes(bytes);
    let x = h.finish();
    const SNR: [i8; 12] = [5, 5, 5, -128, -33, -32, -20, -1, 0, 31, 32, 127];
    const RSSI: [i16; 6] = [-80, -80, -140, -1, 0, i16::MIN];
    (RSSI[((x >> 8) % 6) as usize], SNR[(x % 12) as usize])
}

pub fn cand_counter(last: Option<u32>, wire: u16) -> Option<u32> {
    match last {
        None => Some(wire as u32),
        Some(l) => {
            let l = l as u64;
            // candidates: same epoch and next epoch
            let base = l & !0xFFFF;
            for cand in [base | wire as u64, (base + 0x1_0000) | wire as u64] {
                if cand > l && cand <= l + 16384 && cand <= u32::MAX as u64 {
                    return Some(cand as u32);
                }
            }
            None
        }
    }
}

fn apply_tamper(bytes: &mut Vec<u8>, t: &Tamper) {
    match t {
        Tamper::BitFlip(i) => {
            let nbits = bytes.len() * 8;
            if nbits > 0 {
                let i = *i as usize % nbits;
                bytes[i / 8] ^= 1 << (i % 8);
            }
        }
        Tamper::Truncate(n) => {
            let keep = bytes.len().saturating_sub(*n as usize);
            bytes.truncate(keep);
        }
        Tamper::Extend(n) => {
            for i in 0..*n {
                bytes.push(0xA5 ^ i);
            }
        }
        Tamper::ZeroMic => {
            let n = bytes.len();
            if n >= 4 {
                for b in &mut bytes[n - 4..] {
                    *b = 0;
                }
            }
        }
        _ => {}
    }
}

#[derive(Debug, Clone, Copy, PartialEq, Eq)]
pub enum SimRadioError {
    Injected,
}

#[derive(Debug, Clone, Copy, PartialEq, Eq)]
pub enum NbPhyEvent {
    TxComplete,
    FrameReady,
    Noise,
}

/// The simulated radio handed to the device. `P`/`G` are the board's MAX_RADIO_POWER / ANTENNA_GAIN.
pub struct SimRadio<const P: u8, const G: i8> {
    pub env: EnvRef,
    nb_buf: Vec<u8>,
}

/// Alias used for the nb event types inside `Env` (the event payload types do not depend on P/G).
pub type SimRadioDyn = SimRadio<0, 0>;

impl<const P: u8, const G: i8> SimRadio<P, G> {
    pub fn new(env: EnvRef) -> Self {
        SimRadio { env, nb_buf: Vec::new() }
    }
}

/// The wait of a call the application abandons: never completes (the harness drops the enclosing future).
pub struct PendForever;

impl core::future::Future for PendForever {
    type Output = ();
    fn poll(self: core::pin::Pin<&mut Self>, _cx: &mut core::task::Context<'_>) -> core::task::Poll<()> {
        core::task::Poll::Pending
    }
}

struct RxContFuture<'a> {
    env: EnvRef,
    buf: &'a mut [u8],
}

impl<'a> core::future::Future for RxContFuture<'a> {
    type Output = Result<(usize, aradio::RxQuality), SimRadioError>;
    fn poll(self: core::pin::Pin<&mut Self>, _cx: &mut core::task::Context<'_>) -> core::task::Poll<Self::Output> {
        let this = self.get_mut();
        let r = this.env.borrow_mut().a_rx_continuous(this.buf);
        match r {
            Some(r) => core::task::Poll::Ready(r),
            None => core::task::Poll::Pending,
        }
    }
}

impl<const P: u8, const G: i8> aradio::PhyRxTx for SimRadio<P, G> {
    type PhyError = SimRadioError;
    const ANTENNA_GAIN: i8 = G;
    const MAX_RADIO_POWER: u8 = P;

    async fn tx(&mut self, config: aradio::TxConfig, buf: &[u8]) -> Result<u32, Self::PhyError> {
        let r = self.env.borrow_mut().a_tx(config, buf);
        // the frame is on the air; the application may give up waiting for the end of the transmission
        if self.env.borrow_mut().cancel_check("fault.cancel-in-tx") {
            PendForever.await;
        }
        r
    }
    async fn setup_rx(&mut self, config: aradio::RxConfig) -> Result<(), Self::PhyError> {
        let r = self.env.borrow_mut().a_setup_rx(config);
        if self.env.borrow_mut().cancel_check("fault.cancel-in-setup_rx") {
            PendForever.await;
        }
        r
    }
    async fn rx_continuous(&mut self, rx_buf: &mut [u8]) -> Result<(usize, aradio::RxQuality), Self::PhyError> {
        RxContFuture { env: self.env.clone(), buf: rx_buf }.await
    }
    async fn rx_single(&mut self, buf: &mut [u8]) -> Result<aradio::RxStatus, Self::PhyError> {
        // abandoned before anything is heard in the window
        if self.env.borrow_mut().cancel_check("fault.cancel-in-rx_single") {
            PendForever.await;
        }
        self.env.borrow_mut().a_rx_single(buf)
    }
    async fn low_power(&mut self) -> Result<(), Self::PhyError> {
        let r = self.env.borrow_mut().a_low_power();
        if self.env.borrow_mut().cancel_check("fault.cancel-in-low_power") {
            PendForever.await;
        }
        r
    }
}

impl<const P: u8, const G: i8> lorawan_device::async_device::Timings for SimRadio<P, G> {
    fn get_rx_window_lead_time_ms(&self) -> u32 {
        self.env.borrow().cfg.lead_ms
    }
    fn get_rx_window_buffer(&self) -> u32 {
        let e = self.env.borrow();
        e.cfg.buffer_ms.unwrap_or(e.cfg.lead_ms)
    }
}

impl<const P: u8, const G: i8> lorawan_device::Timings for SimRadio<P, G> {
    fn get_rx_window_offset_ms(&self) -> i32 {
        self.env.borrow().cfg.nb_offset_ms
    }
    fn get_rx_window_duration_ms(&self) -> u32 {
        self.env.borrow().cfg.nb_duration_ms
    }
}

impl<const P: u8, const G: i8> nradio::PhyRxTx for SimRadio<P, G> {
    type PhyEvent = NbPhyEvent;
    type PhyError = SimRadioError;
    type PhyResponse = ();
    const ANTENNA_GAIN: i8 = G;
    const MAX_RADIO_POWER: u8 = P;

    fn get_mut_radio(&mut self) -> &mut Self {
        self
    }
    fn get_received_packet(&mut self) -> &mut [u8] {
        self.nb_buf = self.env.borrow().nb_rx_buf.clone();
        &mut self.nb_buf[..]
    }
    fn handle_event(&mut self, event: nradio::Event<'_, Self>) -> Result<nradio::Response<Self>, Self::PhyError> {
        // convert to the P/G independent event type
        let ev: nradio::Event<'_, SimRadioDyn> = match event {
            nradio::Event::TxRequest(c, b) => nradio::Event::TxRequest(c, b),
            nradio::Event::RxRequest(c) => nradio::Event::RxRequest(c),
            nradio::Event::CancelRx => nradio::Event::CancelRx,
            nradio::Event::Phy(p) => nradio::Event::Phy(p),
        };
        let r = self.env.borrow_mut().nb_event(ev)?;
        Ok(match r {
            nradio::Response::Idle => nradio::Response::Idle,
            nradio::Response::Txing => nradio::Response::Txing,
            nradio::Response::Rxing => nradio::Response::Rxing,
            nradio::Response::TxDone(t) => nradio::Response::TxDone(t),
            nradio::Response::RxDone(q) => nradio::Response::RxDone(q),
            nradio::Response::Phy(()) => nradio::Response::Phy(()),
        })
    }
}

pub struct SimTimer {
    pub env: EnvRef,
}

impl aradio::Timer for SimTimer {
    fn reset(&mut self) {
        let mut e = self.env.borrow_mut();
        e.timer_base = e.now_ms;
        let now = e.now_ms;
        e.push(Ev::TimerReset { now });
    }
    async fn at(&mut self, millis: u64) {
        // abandoned before the time has passed
        if self.env.borrow_mut().cancel_check("fault.cancel-in-timer") {
            PendForever.await;
        }
        let mut e = self.env.borrow_mut();
        let target = e.timer_base + millis;
        if target > e.now_ms {
            e.now_ms = target;
        }
        let now_after = e.now_ms;
        e.push(Ev::TimerAt { ms: millis, now_after });
    }
    async fn delay_ms(&mut self, millis: u64) {
        if self.env.borrow_mut().cancel_check("fault.cancel-in-timer") {
            PendForever.await;
        }
        let mut e = self.env.borrow_mut();
        e.now_ms += millis;
        e.push(Ev::TimerDelay { ms: millis });
    }
}

/// The device's RNG. Draws come from the per-operation stream in `Env` (or from forced values);
/// a budget per operation converts a retry loop that cannot terminate into an unwinding failure.
pub struct SimRng {
    pub env: EnvRef,
}

impl rand_core::RngCore for SimRng {
    fn next_u32(&mut self) -> u32 {
        let mut e = self.env.borrow_mut();
        e.draws_in_call += 1;
        e.draws_total += 1;
        if e.draws_in_call > DRAW_BUDGET {
            drop(e);
            panic!("{}", LIVELOCK_MARKER);
        }
        if let Some(v) = e.forced_draws.pop_front() {
            return v;
        }
        e.rng.next_u32()
    }
    fn next_u64(&mut self) -> u64 {
        ((self.next_u32() as u64) << 32) | self.next_u32() as u64
    }
    fn fill_bytes(&mut self, dest: &mut [u8]) {
        for b in dest.iter_mut() {
            *b = self.next_u32() as u8;
        }
    }
    fn try_fill_bytes(&mut self, dest: &mut [u8]) -> Result<(), rand_core::Error> {
        self.fill_bytes(dest);
        Ok(())
    }
}
