//! Reference LoRaWAN 1.0.x codec written from the specification. It is the
//! only judge of "authentic", "which counter" and "what plaintext" in every
//! oracle; the implementation under test is never asked.

pub mod aes;
use aes::{cmac, Aes128};

pub const DIR_UP: u8 = 0;
pub const DIR_DOWN: u8 = 1;

pub const MTYPE_JOIN_REQUEST: u8 = 0;
pub const MTYPE_JOIN_ACCEPT: u8 = 1;
pub const MTYPE_UNCONF_UP: u8 = 2;
pub const MTYPE_UNCONF_DOWN: u8 = 3;
pub const MTYPE_CONF_UP: u8 = 4;
pub const MTYPE_CONF_DOWN: u8 = 5;

#[derive(Clone, Copy, Debug, PartialEq, Eq)]
pub struct SessionKeys {
    pub nwk: [u8; 16],
    pub app: [u8; 16],
    pub devaddr: u32,
}

fn b0(dir: u8, devaddr: u32, fcnt: u32, len: usize) -> [u8; 16] {
    let mut b = [0u8; 16];
    b[0] = 0x49;
    b[5] = dir;
    b[6..10].copy_from_slice(&devaddr.to_le_bytes());
    b[10..14].copy_from_slice(&fcnt.to_le_bytes());
    b[15] = len as u8;
    b
}

/// MIC over `msg` = MHDR | FHDR | FPort | FRMPayload.
pub fn data_mic(nwk: &[u8; 16], dir: u8, devaddr: u32, fcnt: u32, msg: &[u8]) -> [u8; 4] {
    let mut m = Vec::with_capacity(16 + msg.len());
    m.extend_from_slice(&b0(dir, devaddr, fcnt, msg.len()));
    m.extend_from_slice(msg);
    let c = cmac(nwk, &m);
    [c[0], c[1], c[2], c[3]]
}

/// FRMPayload encryption/decryption (an involution).
pub fn crypt_payload(key: &[u8; 16], dir: u8, devaddr: u32, fcnt: u32, data: &[u8]) -> Vec<u8> {
    let aes = Aes128::new(key);
    let mut out = Vec::with_capacity(data.len());
    for (i, chunk) in data.chunks(16).enumerate() {
        let mut a = [0u8; 16];
        a[0] = 0x01;
        a[5] = dir;
        a[6..10].copy_from_slice(&devaddr.to_le_bytes());
        a[10..14].copy_from_slice(&fcnt.to_le_bytes());
        a[15] = (i + 1) as u8;
        let s = aes.encrypt(&a);
        for (j, b) in chunk.iter().enumerate() {
            out.push(b ^ s[j]);
        }
    }
    out
}

#[derive(Clone, Debug, PartialEq, Eq)]
pub struct DataFrame {
    pub mtype: u8,
    pub devaddr: u32,
    /// FCtrl bit 7
    pub adr: bool,
    /// FCtrl bit 6 (uplink: ADRACKReq; downlink: RFU)
    pub bit6: bool,
    /// FCtrl bit 5
    pub ack: bool,
    /// FCtrl bit 4 (downlink: FPending; uplink: ClassB)
    pub bit4: bool,
    pub fcnt16: u16,
    pub fopts: Vec<u8>,
    pub fport: Option<u8>,
    /// plaintext FRMPayload
    pub frm: Vec<u8>,
}

impl DataFrame {
    pub fn is_uplink(&self) -> bool {
        self.mtype == MTYPE_UNCONF_UP || self.mtype == MTYPE_CONF_UP
    }
    pub fn dir(&self) -> u8 {
        if self.is_uplink() {
            DIR_UP
        } else {
            DIR_DOWN
        }
    }
}

/// Build a data frame with the full counter `fcnt32` (its low half goes on the
/// wire unless `frame.fcnt16` is deliberately different — the builder always
/// uses `fcnt32 as u16`).
pub fn build_data(frame: &DataFrame, fcnt32: u32, keys: &SessionKeys) -> Vec<u8> {
    assert!(frame.fopts.len() <= 15);
    let mut v = Vec::with_capacity(13 + frame.fopts.len() + frame.frm.len());
    v.push(frame.mtype << 5);
    v.extend_from_slice(&frame.devaddr.to_le_bytes());
    let fctrl = ((frame.adr as u8) << 7)
        | ((frame.bit6 as u8) << 6)
        | ((frame.ack as u8) << 5)
        | ((frame.bit4 as u8) << 4)
        | (frame.fopts.len() as u8);
    v.push(fctrl);
    v.extend_from_slice(&(fcnt32 as u16).to_le_bytes());
    v.extend_from_slice(&frame.fopts);
    if let Some(p) = frame.fport {
        v.push(p);
        let key = if p == 0 { &keys.nwk } else { &keys.app };
        v.extend_from_slice(&crypt_payload(key, frame.dir(), frame.devaddr, fcnt32, &frame.frm));
    }
    let mic = data_mic(&keys.nwk, frame.dir(), frame.devaddr, fcnt32, &v);
    v.extend_from_slice(&mic);
    v
}

#[derive(Clone, Debug, PartialEq, Eq)]
pub struct ParsedData {
    pub mtype: u8,
    pub major: u8,
    pub devaddr: u32,
    pub fctrl: u8,
    pub fcnt16: u16,
    pub fopts: Vec<u8>,
    pub fport: Option<u8>,
    pub frm_cipher: Vec<u8>,
    pub mic: [u8; 4],
}

impl ParsedData {
    pub fn adr(&self) -> bool {
        self.fctrl & 0x80 != 0
    }
    pub fn bit6(&self) -> bool {
        self.fctrl & 0x40 != 0
    }
    pub fn ack(&self) -> bool {
        self.fctrl & 0x20 != 0
    }
    pub fn bit4(&self) -> bool {
        self.fctrl & 0x10 != 0
    }
    pub fn is_uplink(&self) -> bool {
        self.mtype == MTYPE_UNCONF_UP || self.mtype == MTYPE_CONF_UP
    }
    pub fn is_confirmed(&self) -> bool {
        self.mtype == MTYPE_CONF_UP || self.mtype == MTYPE_CONF_DOWN
    }
    pub fn dir(&self) -> u8 {
        if self.is_uplink() {
            DIR_UP
        } else {
            DIR_DOWN
        }
    }
}

/// Structural parse of a data frame (MType 2..=5). `None` when the bytes are
/// not a structurally valid LoRaWAN 1.0.x data frame.
pub fn parse_data(bytes: &[u8]) -> Option<ParsedData> {
    if bytes.len() < 12 {
        return None;
    }
    let mhdr = bytes[0];
    let mtype = mhdr >> 5;
    if !(2..=5).contains(&mtype) {
        return None;
    }
    let major = mhdr & 0x03;
    let devaddr = u32::from_le_bytes([bytes[1], bytes[2], bytes[3], bytes[4]]);
    let fctrl = bytes[5];
    let fcnt16 = u16::from_le_bytes([bytes[6], bytes[7]]);
    let foptslen = (fctrl & 0x0f) as usize;
    let body_end = bytes.len() - 4;
    let fhdr_end = 8 + foptslen;
    if fhdr_end > body_end {
        return None;
    }
    let fopts = bytes[8..fhdr_end].to_vec();
    let (fport, frm_cipher) = if fhdr_end < body_end {
        (Some(bytes[fhdr_end]), bytes[fhdr_end + 1..body_end].to_vec())
    } else {
        (None, vec![])
    };
    let mic = [bytes[body_end], bytes[body_end + 1], bytes[body_end + 2], bytes[body_end + 3]];
    Some(ParsedData { mtype, major, devaddr, fctrl, fcnt16, fopts, fport, frm_cipher, mic })
}

/// Does the MIC of `bytes` (a structurally valid data frame) verify under
/// `nwk` for full counter `fcnt32` and the frame's own direction?
pub fn mic_ok(bytes: &[u8], p: &ParsedData, nwk: &[u8; 16], fcnt32: u32) -> bool {
    let body = &bytes[..bytes.len() - 4];
    data_mic(nwk, p.dir(), p.devaddr, fcnt32, body) == p.mic
}

pub fn decrypt_frm(p: &ParsedData, keys: &SessionKeys, fcnt32: u32) -> Vec<u8> {
    match p.fport {
        None => vec![],
        Some(0) => crypt_payload(&keys.nwk, p.dir(), p.devaddr, fcnt32, &p.frm_cipher),
        Some(_) => crypt_payload(&keys.app, p.dir(), p.devaddr, fcnt32, &p.frm_cipher),
    }
}

#[derive(Clone, Debug, PartialEq, Eq)]
pub struct JoinRequest {
    pub join_eui: [u8; 8],
    pub dev_eui: [u8; 8],
    pub dev_nonce: [u8; 2],
    pub mic: [u8; 4],
}

pub fn parse_join_request(bytes: &[u8]) -> Option<JoinRequest> {
    if bytes.len() != 23 || bytes[0] != 0x00 {
        return None;
    }
    Some(JoinRequest {
        join_eui: bytes[1..9].try_into().unwrap(),
        dev_eui: bytes[9..17].try_into().unwrap(),
        dev_nonce: bytes[17..19].try_into().unwrap(),
        mic: bytes[19..23].try_into().unwrap(),
    })
}

pub fn join_request_mic(appkey: &[u8; 16], bytes: &[u8]) -> [u8; 4] {
    let c = cmac(appkey, &bytes[..19]);
    [c[0], c[1], c[2], c[3]]
}

#[derive(Clone, Debug, PartialEq, Eq)]
pub struct JoinAccept {
    pub join_nonce: [u8; 3],
    pub net_id: [u8; 3],
    pub devaddr: u32,
    pub dl_settings: u8,
    pub rx_delay: u8,
    pub cflist: Option<[u8; 16]>,
}

/// Build the JoinAccept PHYPayload (MHDR | aes128_decrypt(AppKey, body | MIC)).
pub fn build_join_accept(appkey: &[u8; 16], ja: &JoinAccept) -> Vec<u8> {
    let mut clear = vec![0x20u8];
    clear.extend_from_slice(&ja.join_nonce);
    clear.extend_from_slice(&ja.net_id);
    clear.extend_from_slice(&ja.devaddr.to_le_bytes());
    clear.push(ja.dl_settings);
    clear.push(ja.rx_delay);
    if let Some(cf) = &ja.cflist {
        clear.extend_from_slice(cf);
    }
    let c = cmac(appkey, &clear);
    clear.extend_from_slice(&c[..4]);
    let aes = Aes128::new(appkey);
    let mut out = vec![0x20u8];
    for chunk in clear[1..].chunks(16) {
        let blk: [u8; 16] = chunk.try_into().expect("join accept body is a multiple of 16");
        out.extend_from_slice(&aes.decrypt(&blk));
    }
    out
}

/// Decode a JoinAccept with the device-side operation (aes128_encrypt) and
/// verify its MIC. `None` when length, MHDR or MIC are wrong.
pub fn open_join_accept(appkey: &[u8; 16], bytes: &[u8]) -> Option<JoinAccept> {
    if (bytes.len() != 17 && bytes.len() != 33) || bytes[0] >> 5 != MTYPE_JOIN_ACCEPT {
        return None;
    }
    let aes = Aes128::new(appkey);
    let mut clear = vec![bytes[0]];
    for chunk in bytes[1..].chunks(16) {
        let blk: [u8; 16] = chunk.try_into().ok()?;
        clear.extend_from_slice(&aes.encrypt(&blk));
    }
    let n = clear.len();
    let c = cmac(appkey, &clear[..n - 4]);
    if c[..4] != clear[n - 4..] {
        return None;
    }
    Some(JoinAccept {
        join_nonce: clear[1..4].try_into().unwrap(),
        net_id: clear[4..7].try_into().unwrap(),
        devaddr: u32::from_le_bytes(clear[7..11].try_into().unwrap()),
        dl_settings: clear[11],
        rx_delay: clear[12],
        cflist: if n == 33 { Some(clear[13..29].try_into().unwrap()) } else { None },
    })
}

/// LoRaWAN 1.0.x session key derivation.
pub fn derive_session_keys(appkey: &[u8; 16], join_nonce: &[u8; 3], net_id: &[u8; 3], dev_nonce: &[u8; 2]) -> ([u8; 16], [u8; 16]) {
    let aes = Aes128::new(appkey);
    let mut blk = [0u8; 16];
    blk[1..4].copy_from_slice(join_nonce);
    blk[4..7].copy_from_slice(net_id);
    blk[7..9].copy_from_slice(dev_nonce);
    blk[0] = 0x01;
    let nwk = aes.encrypt(&blk);
    blk[0] = 0x02;
    let app = aes.encrypt(&blk);
    (nwk, app)
}

pub fn self_test() -> Result<(), String> {
    aes::self_test()?;
    // Published LoRaWAN 1.0 example frame (lora-packet README, also used by many
    // implementations): PHYPayload 40F17DBE4900020001954378762B11FF0D with
    // NwkSKey 44024241ed4ce9a68c6a8bc055233fd3, AppSKey ec925802ae430ca77fd3dd73cb2cc588,
    // FCnt 2, plaintext "test".
    fn hex(s: &str) -> Vec<u8> {
        (0..s.len() / 2).map(|i| u8::from_str_radix(&s[2 * i..2 * i + 2], 16).unwrap()).collect()
    }
    let frame = hex("40F17DBE4900020001954378762B11FF0D");
    let keys = SessionKeys {
        nwk: hex("44024241ed4ce9a68c6a8bc055233fd3").try_into().unwrap(),
        app: hex("ec925802ae430ca77fd3dd73cb2cc588").try_into().unwrap(),
        devaddr: 0x49be7df1,
    };
    let p = parse_data(&frame).ok_or("reference frame does not parse")?;
    if p.devaddr != keys.devaddr || p.fcnt16 != 2 || p.fport != Some(1) {
        return Err("reference frame header mismatch".into());
    }
    if !mic_ok(&frame, &p, &keys.nwk, 2) {
        return Err("reference frame MIC mismatch".into());
    }
    if decrypt_frm(&p, &keys, 2) != b"test" {
        return Err("reference frame plaintext mismatch".into());
    }
    let rebuilt = build_data(
        &DataFrame {
            mtype: MTYPE_UNCONF_UP,
            devaddr: keys.devaddr,
            adr: false,
            bit6: false,
            ack: false,
            bit4: false,
            fcnt16: 2,
            fopts: vec![],
            fport: Some(1),
            frm: b"test".to_vec(),
        },
        2,
        &keys,
    );
    if rebuilt != frame {
        return Err("reference frame rebuild mismatch".into());
    }
    // join accept round trip + key derivation sanity (encrypt/decrypt duality)
    let appkey = [7u8; 16];
    let ja = JoinAccept { join_nonce: [1, 2, 3], net_id: [4, 5, 6], devaddr: 0x01020304, dl_settings: 0x23, rx_delay: 5, cflist: Some([9; 16]) };
    let bytes = build_join_accept(&appkey, &ja);
    if open_join_accept(&appkey, &bytes).as_ref() != Some(&ja) {
        return Err("join accept round trip".into());
    }
    Ok(())
}
