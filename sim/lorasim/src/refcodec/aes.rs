//! Independent AES-128 (FIPS-197), encrypt and decrypt, written for the
//! reference codec. Shares no code with the `aes` crate used by /repo.

const fn gmul(mut a: u8, mut b: u8) -> u8 {
    let mut p = 0u8;
    let mut i = 0;
    while i < 8 {
        if b & 1 != 0 {
            p ^= a;
        }
        let hi = a & 0x80;
        a <<= 1;
        if hi != 0 {
            a ^= 0x1b;
        }
        b >>= 1;
        i += 1;
    }
    p
}

const fn build_sbox() -> [u8; 256] {
    // multiplicative inverse via exponentiation a^254, then affine transform
    let mut sbox = [0u8; 256];
    let mut x = 0usize;
    while x < 256 {
        let a = x as u8;
        // a^254
        let mut inv = 1u8;
        if a != 0 {
            let mut base = a;
            let mut e = 254u32;
            while e > 0 {
                if e & 1 != 0 {
                    inv = gmul(inv, base);
                }
                base = gmul(base, base);
                e >>= 1;
            }
        } else {
            inv = 0;
        }
        let mut s = inv;
        let mut r = inv;
        let mut i = 0;
        while i < 4 {
            r = r.rotate_left(1);
            s ^= r;
            i += 1;
        }
        sbox[x] = s ^ 0x63;
        x += 1;
    }
    sbox
}

const fn build_inv(sbox: &[u8; 256]) -> [u8; 256] {
    let mut inv = [0u8; 256];
    let mut i = 0usize;
    while i < 256 {
        inv[sbox[i] as usize] = i as u8;
        i += 1;
    }
    inv
}

static SBOX: [u8; 256] = build_sbox();
static INV_SBOX: [u8; 256] = build_inv(&SBOX);

#[derive(Clone)]
pub struct Aes128 {
    rk: [[u8; 16]; 11],
}

impl Aes128 {
    pub fn new(key: &[u8; 16]) -> Self {
        let mut w = [[0u8; 4]; 44];
        for i in 0..4 {
            w[i] = [key[4 * i], key[4 * i + 1], key[4 * i + 2], key[4 * i + 3]];
        }
        let mut rcon = 1u8;
        for i in 4..44 {
            let mut t = w[i - 1];
            if i % 4 == 0 {
                t = [SBOX[t[1] as usize] ^ rcon, SBOX[t[2] as usize], SBOX[t[3] as usize], SBOX[t[0] as usize]];
                rcon = gmul(rcon, 2);
            }
            for j in 0..4 {
                w[i][j] = w[i - 4][j] ^ t[j];
            }
        }
        let mut rk = [[0u8; 16]; 11];
        for r in 0..11 {
            for c in 0..4 {
                for j in 0..4 {
                    rk[r][4 * c + j] = w[4 * r + c][j];
                }
            }
        }
        Aes128 { rk }
    }

    fn add_rk(s: &mut [u8; 16], rk: &[u8; 16]) {
        for i in 0..16 {
            s[i] ^= rk[i];
        }
    }
    fn sub_bytes(s: &mut [u8; 16]) {
        for b in s.iter_mut() {
            *b = SBOX[*b as usize];
        }
    }
    fn inv_sub_bytes(s: &mut [u8; 16]) {
        for b in s.iter_mut() {
            *b = INV_SBOX[*b as usize];
        }
    }
    // state is column-major: s[4*c + r]
    fn shift_rows(s: &mut [u8; 16]) {
        let t = *s;
        for c in 0..4 {
            for r in 0..4 {
                s[4 * c + r] = t[4 * ((c + r) % 4) + r];
            }
        }
    }
    fn inv_shift_rows(s: &mut [u8; 16]) {
        let t = *s;
        for c in 0..4 {
            for r in 0..4 {
                s[4 * ((c + r) % 4) + r] = t[4 * c + r];
            }
        }
    }
    fn mix_columns(s: &mut [u8; 16]) {
        for c in 0..4 {
            let a = [s[4 * c], s[4 * c + 1], s[4 * c + 2], s[4 * c + 3]];
            s[4 * c] = gmul(a[0], 2) ^ gmul(a[1], 3) ^ a[2] ^ a[3];
            s[4 * c + 1] = a[0] ^ gmul(a[1], 2) ^ gmul(a[2], 3) ^ a[3];
            s[4 * c + 2] = a[0] ^ a[1] ^ gmul(a[2], 2) ^ gmul(a[3], 3);
            s[4 * c + 3] = gmul(a[0], 3) ^ a[1] ^ a[2] ^ gmul(a[3], 2);
        }
    }
    fn inv_mix_columns(s: &mut [u8; 16]) {
        for c in 0..4 {
            let a = [s[4 * c], s[4 * c + 1], s[4 * c + 2], s[4 * c + 3]];
            s[4 * c] = gmul(a[0], 14) ^ gmul(a[1], 11) ^ gmul(a[2], 13) ^ gmul(a[3], 9);
            s[4 * c + 1] = gmul(a[0], 9) ^ gmul(a[1], 14) ^ gmul(a[2], 11) ^ gmul(a[3], 13);
            s[4 * c + 2] = gmul(a[0], 13) ^ gmul(a[1], 9) ^ gmul(a[2], 14) ^ gmul(a[3], 11);
            s[4 * c + 3] = gmul(a[0], 11) ^ gmul(a[1], 13) ^ gmul(a[2], 9) ^ gmul(a[3], 14);
        }
    }

    pub fn encrypt(&self, block: &[u8; 16]) -> [u8; 16] {
        let mut s = *block;
        Self::add_rk(&mut s, &self.rk[0]);
        for r in 1..10 {
            Self::sub_bytes(&mut s);
            Self::shift_rows(&mut s);
            Self::mix_columns(&mut s);
            Self::add_rk(&mut s, &self.rk[r]);
        }
        Self::sub_bytes(&mut s);
        Self::shift_rows(&mut s);
        Self::add_rk(&mut s, &self.rk[10]);
        s
    }

    pub fn decrypt(&self, block: &[u8; 16]) -> [u8; 16] {
        let mut s = *block;
        Self::add_rk(&mut s, &self.rk[10]);
        for r in (1..10).rev() {
            Self::inv_shift_rows(&mut s);
            Self::inv_sub_bytes(&mut s);
            Self::add_rk(&mut s, &self.rk[r]);
            Self::inv_mix_columns(&mut s);
        }
        Self::inv_shift_rows(&mut s);
        Self::inv_sub_bytes(&mut s);
        Self::add_rk(&mut s, &self.rk[0]);
        s
    }
}

/// AES-CMAC (RFC 4493)
pub fn cmac(key: &[u8; 16], msg: &[u8]) -> [u8; 16] {
    let aes = Aes128::new(key);
    let l = aes.encrypt(&[0u8; 16]);
    fn dbl(x: &[u8; 16]) -> [u8; 16] {
        let mut o = [0u8; 16];
        let mut carry = 0u8;
        for i in (0..16).rev() {
            o[i] = (x[i] << 1) | carry;
            carry = x[i] >> 7;
        }
        if carry != 0 {
            o[15] ^= 0x87;
        }
        o
    }
    let k1 = dbl(&l);
    let k2 = dbl(&k1);
    let n = if msg.is_empty() { 1 } else { msg.len().div_ceil(16) };
    let complete = !msg.is_empty() && msg.len() % 16 == 0;
    let mut x = [0u8; 16];
    for i in 0..n - 1 {
        for j in 0..16 {
            x[j] ^= msg[16 * i + j];
        }
        x = aes.encrypt(&x);
    }
    let mut last = [0u8; 16];
    let tail = &msg[16 * (n - 1)..];
    if complete {
        last.copy_from_slice(tail);
        for j in 0..16 {
            last[j] ^= k1[j];
        }
    } else {
        last[..tail.len()].copy_from_slice(tail);
        last[tail.len()] = 0x80;
        for j in 0..16 {
            last[j] ^= k2[j];
        }
    }
    for j in 0..16 {
        x[j] ^= last[j];
    }
    aes.encrypt(&x)
}

pub fn self_test() -> Result<(), String> {
    fn hex(s: &str) -> Vec<u8> {
        (0..s.len() / 2).map(|i| u8::from_str_radix(&s[2 * i..2 * i + 2], 16).unwrap()).collect()
    }
    // FIPS-197 appendix C.1
    let key: [u8; 16] = hex("000102030405060708090a0b0c0d0e0f").try_into().unwrap();
    let pt: [u8; 16] = hex("00112233445566778899aabbccddeeff").try_into().unwrap();
    let ct: [u8; 16] = hex("69c4e0d86a7b0430d8cdb78070b4c55a").try_into().unwrap();
    let a = Aes128::new(&key);
    if a.encrypt(&pt) != ct {
        return Err("AES-128 encrypt FIPS-197 C.1 mismatch".into());
    }
    if a.decrypt(&ct) != pt {
        return Err("AES-128 decrypt FIPS-197 C.1 mismatch".into());
    }
    // FIPS-197 appendix B
    let key: [u8; 16] = hex("2b7e151628aed2a6abf7158809cf4f3c").try_into().unwrap();
    let pt: [u8; 16] = hex("3243f6a8885a308d313198a2e0370734").try_into().unwrap();
    let ct: [u8; 16] = hex("3925841d02dc09fbdc118597196a0b32").try_into().unwrap();
    let a = Aes128::new(&key);
    if a.encrypt(&pt) != ct || a.decrypt(&ct) != pt {
        return Err("AES-128 FIPS-197 B mismatch".into());
    }
    // RFC 4493 test vectors
    let m = hex("6bc1bee22e409f96e93d7e117393172aae2d8a571e03ac9c9eb76fac45af8e5130c81c46a35ce411e5fbc1191a0a52eff69f2445df4f9b17ad2b417be66c3710");
    let cases: [(usize, &str); 4] = [
        (0, "bb1d6929e95937287fa37d129b756746"),
        (16, "070a16b46b4d4144f79bdd9dd04a287c"),
        (40, "dfa66747de9ae63030ca32611497c827"),
        (64, "51f0bebf7e3b9d92fc49741779363cfe"),
    ];
    for (len, want) in cases {
        if cmac(&key, &m[..len]).to_vec() != hex(want) {
            return Err(format!("AES-CMAC RFC 4493 vector len {len} mismatch"));
        }
    }
    Ok(())
}
