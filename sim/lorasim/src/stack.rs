//! Full-stack configuration: the real `lora_phy::lorawan_radio::LorawanRadio` (adapter) + `lora_phy::LoRa`
//! (mode layer) + the real SX126x / SX127x driver, on physim's simulated SPI bus, lines, delay and chip
//! model, *under* the real async MAC of `lorawan-device`.
//!
//! `StackRadio` implements `PhyRxTx + Timings` by delegation. For every call it
//!  1. asks the MAC world (`Env`) what the script says for this radio call (fault? frame? silence?) — the
//!     same decision procedure the stub radio uses, so every MAC-level oracle works unchanged;
//!  2. runs the real adapter call; when the real code waits for the chip (DIO1 / BUSY) the decision is
//!     turned into a chip event (TxDone, RxDone with the frame in the chip's buffer, RxTimeout) or, for a
//!     scripted fault, into an SPI / IRQ transport fault inside the real call;
//!  3. logs the radio event with the outcome the real code produced;
//!  4. compares what the chip was actually programmed with when the transmission / reception started
//!     (frequency, spreading factor, bandwidth, coding rate; payload for TX) with the `TxConfig` /
//!     `RxConfig` the MAC handed down: chip-level part of C09 / C10.

use crate::world::{EnvRef, Ev, Rf, Win};
use core::future::Future;
use core::task::Poll;
use lora_phy::lorawan_radio::LorawanRadio;
use lora_phy::mod_traits::RadioKind;
use lora_phy::sx126x::{Config as C126, Stm32wl, Sx1261, Sx1262, Sx126x, TcxoCtrlVoltage};
use lora_phy::sx127x::{Config as C127, Sx1272, Sx1276, Sx127x};
use lora_phy::LoRa;
use lorawan_device::async_device::radio as aradio;
use lorawan_device::async_device::Timings;
use physim::chip126x::Outcome as ChipOutcome;
use physim::rig::{make_world, Board, ChipKind};
use physim::world::{Chip, ChipRf, Fault as PhyFault, FaultKind, Pend, SimDelay, SimIv, SimSpi, WorldRef as PhyRef};
use serde::{Deserialize, Serialize};

/// Which chip + board options sit under the MAC in a full-stack run.
#[derive(Clone, Copy, Debug, PartialEq, Eq, Serialize, Deserialize)]
pub struct PhyCfg {
    pub chip: ChipKind,
    pub tcxo: bool,
    pub dcdc: bool,
    pub rx_boost: bool,
    pub tx_boost: bool,
}

impl PhyCfg {
    pub fn board(&self) -> Board {
        Board { tcxo: self.tcxo, dcdc: self.dcdc, rx_boost: self.rx_boost, tx_boost: self.tx_boost }
    }
}

#[derive(Debug)]
pub enum StackError {
    /// the real driver reported an error (transport fault injected by the script, or its own)
    Radio(String),
    /// the real code waits for something that can never happen (reported as an alert)
    Stuck,
}

/// A chip driver type the stack can be built on.
pub trait StackKind: RadioKind + Sized {
    fn build(phy: &PhyRef, cfg: &PhyCfg) -> Self;
}

macro_rules! kind126 {
    ($t:ty, $chip:expr) => {
        impl StackKind for Sx126x<SimSpi, SimIv, $t> {
            fn build(phy: &PhyRef, c: &PhyCfg) -> Self {
                let tcxo = if c.tcxo { Some(TcxoCtrlVoltage::Ctrl1V7) } else { None };
                #[allow(clippy::redundant_closure_call)]
                Sx126x::new(SimSpi(phy.clone()), SimIv(phy.clone()), C126 { chip: ($chip)(c), tcxo_ctrl: tcxo, use_dcdc: c.dcdc, rx_boost: c.rx_boost })
            }
        }
    };
}
kind126!(Sx1261, |_c: &PhyCfg| Sx1261);
kind126!(Sx1262, |_c: &PhyCfg| Sx1262);
kind126!(Stm32wl, |c: &PhyCfg| Stm32wl { use_high_power_pa: c.tx_boost });

impl StackKind for Sx127x<SimSpi, SimIv, Sx1272> {
    fn build(phy: &PhyRef, c: &PhyCfg) -> Self {
        Sx127x::new(SimSpi(phy.clone()), SimIv(phy.clone()), C127 { chip: Sx1272, tcxo_used: c.tcxo, tx_boost: c.tx_boost, rx_boost: c.rx_boost })
    }
}
impl StackKind for Sx127x<SimSpi, SimIv, Sx1276> {
    fn build(phy: &PhyRef, c: &PhyCfg) -> Self {
        Sx127x::new(SimSpi(phy.clone()), SimIv(phy.clone()), C127 { chip: Sx1276, tcxo_used: c.tcxo, tx_boost: c.tx_boost, rx_boost: c.rx_boost })
    }
}

pub type K1261 = Sx126x<SimSpi, SimIv, Sx1261>;
pub type K1262 = Sx126x<SimSpi, SimIv, Sx1262>;
pub type KWl = Sx126x<SimSpi, SimIv, Stm32wl>;
pub type K1272 = Sx127x<SimSpi, SimIv, Sx1272>;
pub type K1276 = Sx127x<SimSpi, SimIv, Sx1276>;

pub struct StackRadio<RK: StackKind, const P: u8, const G: i8> {
    env: EnvRef,
    phy: PhyRef,
    inner: LorawanRadio<RK, SimDelay, P, G>,
    /// number of TX / RX starts of the chip already compared
    seen_tx: usize,
    seen_rx: usize,
}

enum PendAction {
    Again,
    Yield,
    Abort,
}

/// Poll `fut`; whenever the real code is pending at one of the two simulated waits, `on_pend` changes the
/// chip world and asks for another poll, yields to the caller (idle listener), or gives up.
async fn drive_inner<T>(phy: &PhyRef, fut: impl Future<Output = T>, mut on_pend: impl FnMut(Pend) -> PendAction) -> Result<T, StackError> {
    let mut fut = core::pin::pin!(fut);
    core::future::poll_fn(|cx| loop {
        match fut.as_mut().poll(cx) {
            Poll::Ready(v) => return Poll::Ready(Ok(v)),
            Poll::Pending => {
                let p = phy.borrow_mut().pend.take();
                let Some(p) = p else { panic!("harness: full-stack future pending outside a simulated wait") };
                match on_pend(p) {
                    PendAction::Again => continue,
                    PendAction::Yield => return Poll::Pending,
                    PendAction::Abort => return Poll::Ready(Err(StackError::Stuck)),
                }
            }
        }
    })
    .await
}

/// Poll a future that never waits for the harness (construction / init).
fn block_now<T>(fut: impl Future<Output = T>) -> Option<T> {
    let mut fut = core::pin::pin!(fut);
    let mut cx = core::task::Context::from_waker(core::task::Waker::noop());
    match fut.as_mut().poll(&mut cx) {
        Poll::Ready(v) => Some(v),
        Poll::Pending => None,
    }
}

fn apply(phy: &PhyRef, out: ChipOutcome, payload: &[u8]) -> bool {
    let mut w = phy.borrow_mut();
    let w = &mut *w;
    match &mut w.chip {
        Chip::C126(c) => c.apply_outcome(&mut w.env, out, payload, false),
        Chip::C127(c) => c.apply_outcome(&mut w.env, out, payload, false),
    }
}

impl<RK: StackKind, const P: u8, const G: i8> StackRadio<RK, P, G> {
    pub fn new(env: EnvRef) -> Self {
        let (pc, lead, want_trace) = {
            let e = env.borrow();
            (e.cfg.phy.expect("full-stack radio without a PhyCfg"), e.cfg.lead_ms, false)
        };
        let phy = make_world(pc.chip, pc.board(), want_trace);
        phy.borrow_mut().begin_call("new", None);
        let rk = RK::build(&phy, &pc);
        let lora = match block_now(LoRa::new(rk, true, SimDelay(phy.clone()))) {
            Some(Ok(l)) => l,
            Some(Err(e)) => panic!("harness: LoRa::new failed on a healthy simulated chip: {e:?}"),
            None => panic!("harness: LoRa::new pending"),
        };
        let mut inner: LorawanRadio<RK, SimDelay, P, G> = lora.into();
        inner.set_rx_window_lead_time(lead);
        inner.set_rx_window_buffer(lead);
        env.borrow_mut().bump("stack.radio-built");
        StackRadio { env, phy, inner, seen_tx: 0, seen_rx: 0 }
    }

    /// Start of one adapter call: reset the per-call transport counters; a scripted radio fault becomes a
    /// transport fault at a call-dependent position inside the real call.
    fn begin(&mut self, op: &'static str, hit: bool, pos: u16) {
        let fault = if hit {
            let k = {
                let e = self.env.borrow();
                (e.op_idx as u16).wrapping_mul(3).wrapping_add(pos) % 7
            };
            // even positions: SPI transaction k fails; odd: the IRQ wait fails (when the call has one)
            Some(if k % 2 == 0 { PhyFault { kind: FaultKind::Spi, at: k / 2 } } else { PhyFault { kind: FaultKind::Irq, at: 0 } })
        } else {
            None
        };
        self.phy.borrow_mut().begin_call(op, fault);
    }

    fn fault_fired(&self) -> bool {
        self.phy.borrow().call.fault_fired
    }

    /// After a call: chip-model alerts (C14 monitors) become probes of the MAC world; new TX / RX starts of the
    /// chip are compared with what the MAC asked for.
    fn after(&mut self, tx: Option<(&aradio::TxConfig, &[u8])>) {
        sync_logs(&self.phy, &self.env, &mut self.seen_tx, &mut self.seen_rx, tx);
    }
}

/// Chip-model alerts (C14 monitors) become probes of the MAC world; TX / RX starts of the chip not yet looked at
/// are compared with what the MAC asked for.
fn sync_logs(phy: &PhyRef, env: &EnvRef, seen_tx: &mut usize, seen_rx: &mut usize, tx: Option<(&aradio::TxConfig, &[u8])>) {
    {
        let mut w = phy.borrow_mut();
        let mut e = env.borrow_mut();
        for a in w.env.alerts.drain(..) {
            e.bump("stack.chip-alert");
            e.push(Ev::Note(format!("chip model alert {} [{}]: {}", a.invariant, a.detail, a.message)));
            e.stack_alerts.push(("chip-alert", format!("{}|{}", a.invariant, a.detail), a.message));
        }
        let (txs, rxs): (Vec<(ChipRf, Vec<u8>)>, Vec<ChipRf>) = match &w.chip {
            Chip::C126(c) => (c.tx_rf_log[(*seen_tx).min(c.tx_rf_log.len())..].to_vec(), c.rx_rf_log[(*seen_rx).min(c.rx_rf_log.len())..].to_vec()),
            Chip::C127(c) => (c.tx_rf_log[(*seen_tx).min(c.tx_rf_log.len())..].to_vec(), c.rx_rf_log[(*seen_rx).min(c.rx_rf_log.len())..].to_vec()),
        };
        *seen_tx += txs.len();
        *seen_rx += rxs.len();
        for (rf, payload) in &txs {
            e.bump("stack.chip-tx-start");
            match tx {
                Some((cfg, buf)) => {
                    let want = Rf::from_cfg(&cfg.rf);
                    if let Some(d) = rf_mismatch(rf, &want) {
                        e.push(Ev::Note(format!("chip TX start differs from the TxConfig: {d}")));
                        e.stack_alerts.push(("tx-config", d.split(' ').next().unwrap_or("").to_string(), format!("the chip started transmitting with {} but the MAC handed down {}: {d}", rf.short(), want.short())));
                    } else if matches!(rf.power_dbm, Some(p) if cfg.pw >= 2 && p > cfg.pw as i16) {
                        e.stack_alerts.push(("tx-power", String::new(), format!("the PA settings written to the chip select {} dBm but the MAC handed down {} dBm", rf.power_dbm.unwrap_or(0), cfg.pw)));
                    } else if payload.as_slice() != buf {
                        e.stack_alerts.push(("tx-payload", String::new(), format!("the chip transmitted {} bytes that differ from the {} bytes the MAC handed down", payload.len(), buf.len())));
                    } else {
                        e.bump("stack.chip-tx-matches");
                    }
                }
                None => {
                    e.stack_alerts.push(("tx-unrequested", String::new(), format!("the chip started transmitting ({}) during a call that is not tx()", rf.short())));
                }
            }
        }
        for rf in &rxs {
            e.bump("stack.chip-rx-start");
            match e.cur_rx {
                Some(want) => {
                    if let Some(d) = rf_mismatch(rf, &want) {
                        e.push(Ev::Note(format!("chip RX start differs from the RxConfig: {d}")));
                        e.stack_alerts.push(("rx-config", d.split(' ').next().unwrap_or("").to_string(), format!("the chip started receiving with {} but the MAC configured {}: {d}", rf.short(), want.short())));
                    } else {
                        e.bump("stack.chip-rx-matches");
                    }
                }
                None => e.bump("stack.chip-rx-start-without-config"),
            }
        }
    }
}

/// First difference between what the chip was programmed with and what was asked for.
fn rf_mismatch(got: &ChipRf, want: &Rf) -> Option<String> {
    // frequency synthesiser steps: 0.95 Hz (sx126x) / 61 Hz (sx127x)
    if (got.freq_hz as i64 - want.freq as i64).abs() > 70 {
        return Some(format!("frequency {} Hz instead of {} Hz", got.freq_hz, want.freq));
    }
    if got.sf != want.sf {
        return Some(format!("spreading-factor SF{} instead of SF{}", got.sf, want.sf));
    }
    if got.bw_khz != want.bw_khz {
        return Some(format!("bandwidth {} kHz instead of {} kHz", got.bw_khz, want.bw_khz));
    }
    if got.cr != want.cr {
        return Some(format!("coding-rate 4/{} instead of 4/{}", got.cr, want.cr));
    }
    None
}

impl<RK: StackKind, const P: u8, const G: i8> Timings for StackRadio<RK, P, G> {
    fn get_rx_window_buffer(&self) -> u32 {
        self.inner.get_rx_window_buffer()
    }
    fn get_rx_window_lead_time_ms(&self) -> u32 {
        self.inner.get_rx_window_lead_time_ms()
    }
}

impl<RK: StackKind, const P: u8, const G: i8> aradio::PhyRxTx for StackRadio<RK, P, G> {
    type PhyError = StackError;
    const ANTENNA_GAIN: i8 = <LorawanRadio<RK, SimDelay, P, G> as aradio::PhyRxTx>::ANTENNA_GAIN;
    const MAX_RADIO_POWER: u8 = <LorawanRadio<RK, SimDelay, P, G> as aradio::PhyRxTx>::MAX_RADIO_POWER;

    async fn tx(&mut self, config: aradio::TxConfig, buf: &[u8]) -> Result<u32, Self::PhyError> {
        let (pos, hit) = self.env.borrow_mut().a_tx_begin(&config, buf);
        self.begin("tx", hit, pos);
        let phy = self.phy.clone();
        let env = self.env.clone();
        let mut asked = false;
        let Self { inner, seen_tx, seen_rx, .. } = self;
        let r = drive_inner(&phy, inner.tx(config, buf), |p| match p {
            Pend::Irq => {
                // the frame is on the air and the real driver waits for TxDone: the application may give up here
                // (the real tx() future is dropped in mid-wait; the chip goes on transmitting)
                if !asked {
                    asked = true;
                    if env.borrow_mut().cancel_check("fault.cancel-in-tx") {
                        env.borrow_mut().bump("stack.cancel-in-real-tx-wait");
                        env.borrow_mut().a_tx_end(&config, buf, pos, true, 0);
                        sync_logs(&phy, &env, seen_tx, seen_rx, Some((&config, buf)));
                        return PendAction::Yield;
                    }
                } else if env.borrow().cancel_hit {
                    return PendAction::Yield;
                }
                if apply(&phy, ChipOutcome::Done, &[]) {
                    PendAction::Again
                } else {
                    PendAction::Abort
                }
            }
            Pend::BusyStuck => PendAction::Abort,
        })
        .await;
        let (res, ok, ret) = match r {
            Ok(Ok(ms)) => (Ok(ms), true, ms),
            Ok(Err(e)) => (Err(StackError::Radio(format!("{e:?}"))), false, 0),
            Err(e) => (Err(e), false, 0),
        };
        {
            let mut e = self.env.borrow_mut();
            if hit && !self.fault_fired() {
                e.bump("stack.fault-not-reached");
            }
            if matches!(res, Err(StackError::Stuck)) {
                e.stack_alerts.push(("hang", "tx".into(), "tx(): the real driver waits for an event the chip can never produce in its present mode".into()));
            }
            e.a_tx_end(&config, buf, pos, ok, ret);
        }
        self.after(Some((&config, buf)));
        res
    }

    async fn setup_rx(&mut self, config: aradio::RxConfig) -> Result<(), Self::PhyError> {
        let (pos, hit) = self.env.borrow_mut().a_setup_rx_begin();
        self.begin("setup_rx", hit, pos);
        let phy = self.phy.clone();
        let r = drive_inner(&phy, self.inner.setup_rx(config), |_| PendAction::Abort).await;
        let (res, ok) = match r {
            Ok(Ok(())) => (Ok(()), true),
            Ok(Err(e)) => (Err(StackError::Radio(format!("{e:?}"))), false),
            Err(e) => (Err(e), false),
        };
        {
            let mut e = self.env.borrow_mut();
            if hit && !self.fault_fired() {
                e.bump("stack.fault-not-reached");
            }
            if matches!(res, Err(StackError::Stuck)) {
                e.stack_alerts.push(("hang", "setup_rx".into(), "setup_rx(): the real driver waits for an event the chip can never produce in its present mode".into()));
            }
            e.a_setup_rx_end(&config, pos, ok);
        }
        self.after(None);
        if self.env.borrow_mut().cancel_check("fault.cancel-in-setup_rx") {
            crate::world::PendForever.await;
        }
        res
    }

    async fn rx_single(&mut self, buf: &mut [u8]) -> Result<aradio::RxStatus, Self::PhyError> {
        let (pos, hit, win) = self.env.borrow_mut().a_rx_single_begin();
        self.begin("rx_single", hit, pos);
        // what the ether does in this window (decided, and judged by the reference, before the real call)
        let mut tmp = [0u8; 256];
        // the application may abandon the operation while the real driver waits in this window (before anything is heard)
        let cancel = !hit && self.env.borrow_mut().cancel_check("fault.cancel-in-rx_single");
        let frame: Option<usize> = if hit || cancel { None } else { self.env.borrow_mut().a_rx_single_decide(win, &mut tmp[..buf.len().min(255)]) };
        let phy = self.phy.clone();
        let env = self.env.clone();
        let mut delivered = false;
        let mut cancel_logged = false;
        let Self { inner, seen_tx, seen_rx, .. } = self;
        let r = drive_inner(&phy, inner.rx_single(buf), |p| match p {
            Pend::Irq => {
                if cancel {
                    if !cancel_logged {
                        cancel_logged = true;
                        env.borrow_mut().bump("stack.cancel-in-real-rx-wait");
                        env.borrow_mut().a_rx_single_end(pos, "Abandoned".into());
                        sync_logs(&phy, &env, seen_tx, seen_rx, None);
                    }
                    return PendAction::Yield;
                }
                if delivered {
                    // the chip already reported its event and the driver waits again: the window is over
                    return if apply(&phy, ChipOutcome::Timeout, &[]) { PendAction::Again } else { PendAction::Abort };
                }
                delivered = true;
                let ok = match frame {
                    Some(n) => apply(&phy, ChipOutcome::Done, &tmp[..n]),
                    None => apply(&phy, ChipOutcome::Timeout, &[]),
                };
                if ok {
                    PendAction::Again
                } else {
                    PendAction::Abort
                }
            }
            Pend::BusyStuck => PendAction::Abort,
        })
        .await;
        let (res, outcome) = match r {
            Ok(Ok(aradio::RxStatus::Rx(n, q))) => {
                if let Some(m) = frame {
                    if buf[..n.min(buf.len())] != tmp[..m] {
                        self.env.borrow_mut().stack_alerts.push(("rx-bytes", String::new(), format!("the adapter handed the MAC {n} bytes that differ from the {m} bytes the chip received")));
                    }
                }
                (Ok(aradio::RxStatus::Rx(n, q)), format!("Rx({n})"))
            }
            Ok(Ok(aradio::RxStatus::RxTimeout)) => (Ok(aradio::RxStatus::RxTimeout), "RxTimeout".to_string()),
            Ok(Err(e)) => (Err(StackError::Radio(format!("{e:?}"))), "Err".to_string()),
            Err(e) => (Err(e), "Err".to_string()),
        };
        {
            let mut e = self.env.borrow_mut();
            if hit && !self.fault_fired() {
                e.bump("stack.fault-not-reached");
            }
            if matches!(res, Err(StackError::Stuck)) {
                e.stack_alerts.push(("hang", "rx_single".into(), "rx_single(): the real driver waits for an event the chip can never produce in its present mode".into()));
            }
            if frame.is_some() && !matches!(res, Ok(aradio::RxStatus::Rx(..))) {
                e.bump("stack.frame-on-air-not-reported");
            }
            if matches!(res, Err(StackError::Radio(_))) && !self.fault_fired() && e.cur_rx.is_some() {
                e.stack_alerts.push(("rx-refused", "rx_single".into(), format!("rx_single(): the real radio refused to receive although no transport fault was injected ({:?})", res.as_ref().err())));
            }
            e.a_rx_single_end(pos, outcome);
        }
        self.after(None);
        res
    }

    async fn rx_continuous(&mut self, buf: &mut [u8]) -> Result<(usize, aradio::RxQuality), Self::PhyError> {
        self.phy.borrow_mut().begin_call("rx_continuous", None);
        let phy = self.phy.clone();
        let env = self.env.clone();
        let mut tmp = [0u8; 256];
        let cap = buf.len().min(255);
        let mut got: Option<usize> = None;
        let mut pos_seen: Option<u16> = None;
        let Self { inner, seen_tx, seen_rx, .. } = self;
        let r = drive_inner(&phy, inner.rx_continuous(buf), |p| match p {
            Pend::Irq => {
                // the real receiver is listening (this future may be dropped while it waits): look at how the
                // chip was started now, while the configuration it belongs to is still the current one
                sync_logs(&phy, &env, seen_tx, seen_rx, None);
                // does the ether have something for it now?
                let d = env.borrow_mut().a_rx_continuous_decide(&mut tmp[..cap]);
                match d {
                    None => PendAction::Yield,
                    Some((pos, Err(()))) => {
                        pos_seen = Some(pos);
                        let mut w = phy.borrow_mut();
                        let at = w.call.irq.saturating_sub(1);
                        w.fault = Some(PhyFault { kind: FaultKind::Irq, at });
                        PendAction::Again
                    }
                    Some((pos, Ok(n))) => {
                        pos_seen = Some(pos);
                        got = Some(n);
                        if apply(&phy, ChipOutcome::Done, &tmp[..n]) {
                            PendAction::Again
                        } else {
                            PendAction::Abort
                        }
                    }
                }
            }
            Pend::BusyStuck => PendAction::Abort,
        })
        .await;
        let (res, outcome) = match r {
            Ok(Ok((n, q))) => {
                if let Some(m) = got {
                    if buf[..n.min(buf.len())] != tmp[..m] {
                        self.env.borrow_mut().stack_alerts.push(("rx-bytes", String::new(), format!("the adapter handed the MAC {n} bytes that differ from the {m} bytes the chip received")));
                    }
                }
                (Ok((n, q)), format!("Rx({n})"))
            }
            Ok(Err(e)) => (Err(StackError::Radio(format!("{e:?}"))), "Err".to_string()),
            Err(e) => (Err(e), "Err".to_string()),
        };
        {
            let mut e = self.env.borrow_mut();
            if matches!(res, Err(StackError::Stuck)) {
                e.stack_alerts.push(("hang", "rx_continuous".into(), "rx_continuous(): the real driver waits for an event the chip can never produce in its present mode".into()));
            }
            if matches!(res, Err(StackError::Radio(_))) && !self.fault_fired() && e.cur_rx.is_some() {
                e.stack_alerts.push(("rx-refused", "rx_continuous".into(), format!("rx_continuous(): the real radio refused to listen although no transport fault was injected ({:?})", res.as_ref().err())));
                let pos = e.pos;
                e.a_rx_continuous_end(pos, outcome);
            } else if let Some(pos) = pos_seen {
                e.a_rx_continuous_end(pos, outcome);
            }
        }
        self.after(None);
        res
    }

    async fn low_power(&mut self) -> Result<(), Self::PhyError> {
        let (pos, hit) = self.env.borrow_mut().a_low_power_begin();
        self.begin("low_power", hit, pos);
        let phy = self.phy.clone();
        let r = drive_inner(&phy, self.inner.low_power(), |_| PendAction::Abort).await;
        let (res, ok) = match r {
            Ok(Ok(())) => (Ok(()), true),
            Ok(Err(e)) => (Err(StackError::Radio(format!("{e:?}"))), false),
            Err(e) => (Err(e), false),
        };
        {
            let mut e = self.env.borrow_mut();
            if hit && !self.fault_fired() {
                e.bump("stack.fault-not-reached");
            }
            if matches!(res, Err(StackError::Stuck)) {
                e.stack_alerts.push(("hang", "low_power".into(), "low_power(): the real driver waits for an event the chip can never produce in its present mode".into()));
            }
            e.a_low_power_end(pos, ok);
        }
        self.after(None);
        if self.env.borrow_mut().cancel_check("fault.cancel-in-low_power") {
            crate::world::PendForever.await;
        }
        res
    }
}

/// The windows a single-shot reception can belong to (re-exported for the executor).
pub fn win_name(w: Win) -> &'static str {
    match w {
        Win::Rx1 => "RX1",
        Win::Rx2 => "RX2",
        Win::Gap1 => "gap1",
        Win::Gap2 => "gap2",
        Win::Idle => "idle",
    }
}
