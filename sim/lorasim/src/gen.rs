//! Seeded generators shared by the properties (swarm style: every run draws
//! its own configuration, workload mix and fault kinds).

use crate::refregion as rr;
use crate::script::*;
use simcore::Rng;

pub const UP_BOUNDARIES: [u32; 10] = [0, 1, 0xFFFE, 0xFFFF, 0x1_0000, 0x00FF_FFFF, 0x0100_0000, 0xFFFF_FFFD, 0xFFFF_FFFE, 0xFFFF_FFFF];
pub const DOWN_BOUNDARIES: [Option<u32>; 11] =
    [None, Some(0), Some(0xFFF0), Some(0xFFFF), Some(0x1_0000), Some(0x3_FFFF), Some(0x00FF_FFFE), Some(0x0100_0000), Some(0xFFFF_BFFF), Some(0xFFFF_FFFE), Some(0xFFFF_FFFF)];

pub struct CfgProfile {
    pub frontends: &'static [(Frontend, u32)],
    pub otaa_pct: u32,
    pub boundary_counters_pct: u32,
    pub join_bias_pct: u32,
}

pub const ALL_FRONTENDS: &[(Frontend, u32)] = &[(Frontend::Nb, 3), (Frontend::Async, 3), (Frontend::AsyncC, 3)];

pub fn gen_cfg(r: &mut Rng, p: &CfgProfile) -> WorldCfg {
    let region = *r.pick(&ALL_REGIONS);
    let weights: Vec<u32> = p.frontends.iter().map(|x| x.1).collect();
    let frontend = p.frontends[r.weighted(&weights)].0;
    let otaa = r.chance(p.otaa_pct as u64, 100);
    let mut cfg = WorldCfg::simple(region, frontend);
    cfg.otaa = otaa;
    cfg.board = r.below(BOARDS.len() as u64) as u8;
    if r.chance(1, 2) {
        cfg.lead_ms = *r.pick(&[0u32, 1, 15, 50, 100, 300]);
        cfg.buffer_ms = *r.pick(&[None, Some(0u32), Some(10), Some(40)]);
        cfg.nb_offset_ms = *r.pick(&[0i32, -50, -200, 20, 100]);
        cfg.nb_duration_ms = *r.pick(&[100u32, 10, 500, 1000, 1500]);
    }
    if region.is_fixed() && r.chance(p.join_bias_pct as u64, 100) {
        cfg.join_bias = Some((r.range(1, 8) as u8, *r.pick(&[1u8, 1, 2, 3, 10])));
    }
    if !otaa && r.chance(p.boundary_counters_pct as u64, 100) {
        cfg.fcnt_up0 = *r.pick(&UP_BOUNDARIES);
        cfg.fcnt_down0 = *r.pick(&DOWN_BOUNDARIES);
    }
    cfg.key_seed = r.next_u64();
    cfg.dev_seed = r.next_u64();
    if frontend == Frontend::Nb && r.chance(1, 6) {
        // the board has been up for 24.8 or 49.7 days: its 32-bit millisecond clock is about to change sign / wrap
        cfg.clock_epoch = r.range(1, 3) as u8;
    }
    if r.chance(1, 12) {
        // the default one-entry downlink queue under an application that rarely collects its downlinks
        cfg.lazy_app = true;
        cfg.board = 0;
    }
    cfg
}

/// With probability num/den turn an async configuration into a full-stack one: the real lora-phy adapter, mode
/// layer and chip driver on a simulated chip (board 0, default radio buffer, buffer = lead time).
pub fn maybe_phy(r: &mut Rng, cfg: &mut WorldCfg, num: u64, den: u64) {
    if cfg.frontend == Frontend::Nb || !r.chance(num, den) {
        return;
    }
    use physim::rig::ChipKind;
    let chip = *r.pick(&[ChipKind::Sx1261, ChipKind::Sx1262, ChipKind::Stm32wl, ChipKind::Sx1272, ChipKind::Sx1276]);
    cfg.phy = Some(crate::stack::PhyCfg { chip, tcxo: r.chance(1, 2), dcdc: r.chance(1, 2), rx_boost: r.chance(1, 2), tx_boost: r.chance(1, 2) });
    // the full-stack device is the (22 dBm, +3 dBi) board; one in eight has the 64-byte radio buffer
    cfg.board = if r.chance(1, 2) { 1 } else { 4 };
    cfg.lazy_app = false;
    cfg.small_buffer = r.chance(1, 8);
    if cfg.small_buffer && !matches!(chip, ChipKind::Sx1262) {
        cfg.phy = Some(crate::stack::PhyCfg { chip: ChipKind::Sx1276, ..cfg.phy.unwrap() });
    }
    cfg.buffer_ms = None;
}

/// A small authentic downlink: fresh counter, optional application data.
pub fn frame_ok(r: &mut Rng) -> FrameSpec {
    let mut d = DataSpec::plain(1);
    if r.chance(1, 3) {
        d.fcnt = Fcnt::Rel(r.range(1, 3));
    }
    d.confirmed = r.chance(1, 4);
    d.ack = r.chance(1, 4);
    if r.chance(1, 2) {
        d.body = Body::Data { port: r.range(1, 223) as u8, len: r.range(0, 6) as u8 };
    }
    FrameSpec::Data(d)
}

/// A frame that the reference codec will reject (never oversize).
pub fn frame_rejected(r: &mut Rng) -> FrameSpec {
    match r.below(10) {
        9 => FrameSpec::Echo(*r.pick(&[0u16, 0, 0, 1, 2, 7])),
        0 => {
            let n = r.range(0, 24) as usize;
            FrameSpec::Raw(r.bytes(n))
        }
        1 => {
            let mut d = DataSpec::plain(1);
            d.tamper = Tamper::BitFlip(r.below(8 * 14) as u16);
            d.body = Body::Data { port: 1, len: 2 };
            FrameSpec::Data(d)
        }
        2 => {
            let mut d = DataSpec::plain(1);
            d.tamper = Tamper::WrongNwkKey;
            FrameSpec::Data(d)
        }
        3 => {
            let mut d = DataSpec::plain(1);
            d.tamper = Tamper::ForeignSession;
            d.body = Body::Data { port: 2, len: 3 };
            FrameSpec::Data(d)
        }
        4 => FrameSpec::Replay(r.below(16) as u16),
        5 => {
            // stale or far-future counter with an otherwise perfect MIC
            let mut d = DataSpec::plain(*r.pick(&[0i64, -1, -5, 16385, 16390, 40000, 65536, 65537, 70000, -16384]));
            d.body = Body::Data { port: 3, len: 1 };
            FrameSpec::Data(d)
        }
        6 => {
            let mut d = DataSpec::plain(1);
            d.tamper = Tamper::ZeroMic;
            FrameSpec::Data(d)
        }
        7 => {
            let mut d = DataSpec::plain(1);
            d.tamper = Tamper::Truncate(r.range(1, 6) as u8);
            d.body = Body::Data { port: 1, len: 4 };
            FrameSpec::Data(d)
        }
        _ => {
            // a frame whose first byte looks like a data frame
            let n = r.range(12, 22) as usize;
            let mut b = r.bytes(n);
            b[0] = *r.pick(&[0x60u8, 0xA0, 0x40, 0x80, 0x20, 0xE0]);
            FrameSpec::Raw(b)
        }
    }
}

/// An in-band frequency (raw 24-bit, units of 100 Hz) for the region.
pub fn freq_in_band(r: &mut Rng, region: RegionId) -> u32 {
    let (lo, hi) = rr::band(region);
    let steps = (hi - lo) / 100_000;
    (lo + 100_000 * r.below(steps as u64 + 1) as u32) / 100
}

/// Frequency classes: 0, in band, band edge +-100 Hz, out of band, 0xFFFFFF.
pub fn freq_class(r: &mut Rng, region: RegionId) -> u32 {
    let (lo, hi) = rr::band(region);
    match r.below(8) {
        0 => 0,
        1 | 2 | 3 => freq_in_band(r, region),
        4 => *r.pick(&[lo / 100, hi / 100, lo / 100 - 1, hi / 100 + 1]),
        5 => *r.pick(&[1u32, 100_000, 4_000_000, 0x7F_FFFF]),
        6 => 0xFF_FFFF,
        _ => (lo / 100).wrapping_add(r.below(400_000) as u32).wrapping_sub(100_000) & 0xFF_FFFF,
    }
}

/// An RNG streak: the same number `count` times in a row (a poor or momentarily stuck entropy source).
pub fn gen_rng_stuck(r: &mut Rng) -> (u32, u16) {
    let v = match r.below(5) {
        0 => 0,
        1 => u32::MAX,
        2 => r.below(72) as u32,
        3 => (r.below(64) as u32) << 26,
        _ => r.next_u32(),
    };
    (v, *r.pick(&[1u16, 2, 17, 257, 300, 1000]))
}

pub fn send_len(r: &mut Rng) -> u8 {
    *r.pick(&[0u8, 1, 1, 2, 3, 5, 8])
}

/// Like `send_len`, but sometimes the largest application payload of the current data rate (255 = "M - 8").
pub fn send_len_or_max(r: &mut Rng) -> u8 {
    if r.chance(1, 6) {
        255
    } else {
        send_len(r)
    }
}

/// A MAC command with field values drawn from the whole range (biased towards plausible ones).
pub fn gen_mac(r: &mut Rng, region: RegionId) -> MacSpec {
    match r.below(14) {
        0 | 1 | 2 => {
            let ctl = if r.chance(2, 3) { *r.pick(&[0u8, 0, 6, 5, 7]) } else { r.below(8) as u8 };
            let mask = match r.below(6) {
                0 => 0,
                1 => 1 << r.below(16),
                2 => 0xFFFF,
                3 => 0x00FF,
                4 => 0x0007,
                _ => r.next_u32() as u16,
            };
            MacSpec::LinkAdr { dr: if r.chance(1, 4) { 15 } else { r.below(16) as u8 }, pow: if r.chance(1, 4) { 15 } else { r.below(16) as u8 }, mask, ctl, nbtrans: r.below(16) as u8 }
        }
        3 | 4 => MacSpec::RxParamSetup { rx1off: r.below(8) as u8, rx2dr: r.below(16) as u8, freq: freq_class(r, region) },
        5 => MacSpec::RxTimingSetup { del: if r.chance(3, 4) { r.below(16) as u8 } else { r.below(256) as u8 } },
        6 | 7 => {
            let idx = *r.pick(&[0u8, 1, 2, 3, 4, 5, 7, 8, 15, 16, 17, 63, 64, 71, 72, 255]);
            let drrange = match r.below(4) {
                0 => 0x50,
                1 => r.below(256) as u8,
                2 => *r.pick(&[0x00u8, 0x55, 0x70, 0x77, 0xF0, 0xFF, 0x05, 0x60, 0x66]),
                _ => ((r.below(8) as u8) << 4) | r.below(8) as u8,
            };
            MacSpec::NewChannel { idx, freq: freq_class(r, region), drrange }
        }
        8 | 9 => MacSpec::DlChannel { idx: *r.pick(&[0u8, 1, 2, 3, 4, 5, 15, 16, 71, 72, 255]), freq: freq_class(r, region) },
        10 => MacSpec::DevStatus,
        11 => {
            if r.chance(1, 2) {
                MacSpec::DutyCycle { v: r.below(256) as u8 }
            } else {
                MacSpec::TxParamSetup { v: r.below(256) as u8 }
            }
        }
        12 => {
            if r.chance(1, 2) {
                MacSpec::LinkCheckAns { margin: r.below(256) as u8, gw: r.below(256) as u8 }
            } else {
                MacSpec::DeviceTimeAns { secs: r.next_u32(), frac: r.below(256) as u8 }
            }
        }
        _ => {
            // unknown CID or truncated command
            let n = r.range(1, 6) as usize;
            let mut b = r.bytes(n);
            if r.chance(1, 2) {
                b[0] = *r.pick(&[0x03u8, 0x05, 0x07, 0x0A, 0x08, 0x0D, 0x02]);
            }
            MacSpec::Raw(b)
        }
    }
}

/// Put a command list into a downlink: FOpts when it fits in 15 bytes, else port 0.
pub fn frame_with_macs(macs: Vec<MacSpec>, prefer_port0: bool) -> DataSpec {
    let len: usize = macs.iter().map(|m| m.encoded_len()).sum();
    let mut d = DataSpec::plain(1);
    if len <= 15 && !prefer_port0 {
        d.fopts = macs;
    } else {
        d.body = Body::Port0(macs);
    }
    d
}

/// 16 raw CFList bytes: type 0 (five frequencies), type 1 (channel mask) or an RFU type.
pub fn gen_cflist(r: &mut Rng, region: RegionId) -> Vec<u8> {
    let mut v = vec![0u8; 16];
    match r.below(5) {
        0 | 1 => {
            for i in 0..5 {
                let f = freq_class(r, region);
                v[3 * i] = f as u8;
                v[3 * i + 1] = (f >> 8) as u8;
                v[3 * i + 2] = (f >> 16) as u8;
            }
            v[15] = 0;
        }
        2 | 3 => {
            let pat = r.below(5);
            for b in v.iter_mut().take(9) {
                *b = match pat {
                    0 => 0,
                    1 => 0xFF,
                    2 => 0x01,
                    _ => r.next_u32() as u8,
                };
            }
            if pat == 4 {
                // a single 500 kHz channel only
                for b in v.iter_mut().take(8) {
                    *b = 0;
                }
                v[8] = 0x01;
            }
            for b in v.iter_mut().take(15).skip(9) {
                *b = if r.chance(1, 4) { r.next_u32() as u8 } else { 0 };
            }
            v[15] = 1;
        }
        _ => {
            v = r.bytes(16);
            if v[15] < 2 {
                v[15] = 2 + (v[15] & 1);
            }
        }
    }
    v
}

pub fn gen_ja(r: &mut Rng, region: RegionId, wild: bool) -> JaSpec {
    JaSpec {
        join_nonce: r.next_u32() & 0xFF_FFFF,
        net_id: r.next_u32() & 0xFF_FFFF,
        devaddr: r.next_u32(),
        dl_settings: if wild { r.below(256) as u8 } else { 0 },
        rx_delay: if wild { *r.pick(&[0u8, 1, 2, 5, 15, 16, 0x80, 0xFF]) } else { 0 },
        cflist: if wild && r.chance(1, 2) { Some(gen_cflist(r, region)) } else { None },
        tamper: Tamper::None,
    }
}

/// A MAC command the regional rules allow (so that it is normally accepted and changes state).
pub fn gen_mac_valid(r: &mut Rng, region: RegionId) -> MacSpec {
    let fixed = region.is_fixed();
    match r.below(if fixed { 8 } else { 12 }) {
        0 | 1 | 2 => {
            let ups = rr::uplink_drs(region);
            let dr = if r.chance(1, 4) { 15 } else { *r.pick(&ups) };
            let pow = if r.chance(1, 3) { 15 } else { r.below(rr::max_tx_power_index(region) as u64 + 1) as u8 };
            let (ctl, mask) = if fixed {
                match r.below(6) {
                    0 => (0u8, 0xFFFFu16),
                    1 => (r.below(4) as u8, (r.next_u32() as u16) | 0x0003),
                    2 => (4, r.below(256) as u16 | 1),
                    3 => (5, r.below(255) as u16 + 1),
                    4 => (6, r.below(256) as u16),
                    _ => (7, r.below(255) as u16 + 1),
                }
            } else if r.chance(1, 4) {
                (6, 0)
            } else {
                (0, (r.next_u32() as u16 & 0x00FF) | (1 << r.below(2)))
            };
            MacSpec::LinkAdr { dr, pow, mask, ctl, nbtrans: r.below(4) as u8 }
        }
        3 | 4 => {
            let defined: Vec<u8> = rr::datarates(region).iter().enumerate().filter(|(i, d)| d.is_some() && !(region == RegionId::EU868 && *i == 6)).map(|(i, _)| i as u8).collect();
            MacSpec::RxParamSetup { rx1off: r.below(rr::max_rx1_dr_offset(region) as u64 + 1) as u8, rx2dr: *r.pick(&defined), freq: freq_in_band(r, region) }
        }
        5 | 6 => MacSpec::RxTimingSetup { del: r.below(16) as u8 },
        7 => MacSpec::DevStatus,
        8 | 9 => {
            let join = rr::default_channels(region).len() as u8;
            MacSpec::NewChannel { idx: r.range(join as i64, 15) as u8, freq: if r.chance(1, 6) { 0 } else { freq_in_band(r, region) }, drrange: *r.pick(&[0x50u8, 0x50, 0x30, 0x52, 0x55]) }
        }
        _ => {
            let idx = r.below(8) as u8;
            let defaults = rr::default_channels(region);
            // sometimes exactly the channel's own uplink frequency (the way a network undoes an earlier mapping)
            let freq = match defaults.get(idx as usize) {
                Some(f) if r.chance(1, 3) => *f / 100,
                _ => freq_in_band(r, region),
            };
            MacSpec::DlChannel { idx, freq }
        }
    }
}

/// A JoinAccept whose settings are valid for the region.
pub fn gen_ja_valid(r: &mut Rng, region: RegionId) -> JaSpec {
    let defined: Vec<u8> = rr::datarates(region).iter().enumerate().filter(|(i, d)| d.is_some() && !(region == RegionId::EU868 && *i == 6)).map(|(i, _)| i as u8).collect();
    let dl = ((r.below(rr::max_rx1_dr_offset(region) as u64 + 1) as u8) << 4) | *r.pick(&defined);
    let cflist = if r.chance(1, 2) {
        let mut v = vec![0u8; 16];
        if region.is_fixed() {
            for b in v.iter_mut().take(8) {
                *b = if r.chance(1, 2) { 0xFF } else { r.next_u32() as u8 | 0x03 };
            }
            // sometimes no 500 kHz channel at all (valid while the device uses a 125 kHz data rate)
            v[8] = if r.chance(1, 3) { 0 } else { r.next_u32() as u8 | 1 };
            v[15] = 1;
        } else {
            for i in 0..5 {
                let f = if r.chance(1, 5) { 0 } else { freq_in_band(r, region) };
                v[3 * i] = f as u8;
                v[3 * i + 1] = (f >> 8) as u8;
                v[3 * i + 2] = (f >> 16) as u8;
            }
        }
        Some(v)
    } else {
        None
    };
    JaSpec { join_nonce: r.next_u32() & 0xFF_FFFF, net_id: r.next_u32() & 0xFF_FFFF, devaddr: r.next_u32(), dl_settings: if r.chance(1, 3) { 0 } else { dl }, rx_delay: r.below(16) as u8, cflist, tamper: Tamper::None }
}

/// A command list whose answers add up to 12..=18 bytes, so that the 15-byte answer queue is
/// filled to (and just past) its limit at every possible command boundary.
pub fn gen_answer_heavy(r: &mut Rng, region: RegionId) -> Vec<MacSpec> {
    let target = r.range(12, 18) as usize;
    let mut v = Vec::new();
    let mut total = 0usize;
    while total < target && v.len() < 12 {
        let (m, alen) = match r.below(if region.is_fixed() { 4 } else { 6 }) {
            0 => (MacSpec::DevStatus, 3),
            1 => (MacSpec::RxTimingSetup { del: r.below(16) as u8 }, 1),
            2 => (MacSpec::LinkAdr { dr: 15, pow: 15, mask: 0xFFFF, ctl: if region.is_fixed() { 0 } else { 6 }, nbtrans: 1 }, 2),
            3 => (MacSpec::RxParamSetup { rx1off: 0, rx2dr: rr::rx2_default(region).1, freq: rr::rx2_default(region).0 / 100 }, 2),
            4 => (MacSpec::NewChannel { idx: r.range(3, 15) as u8, freq: freq_in_band(r, region), drrange: 0x50 }, 2),
            _ => (MacSpec::DlChannel { idx: r.below(2) as u8, freq: freq_in_band(r, region) }, 2),
        };
        total += alen;
        v.push(m);
    }
    v
}

// ---------------------------------------------------------------------------------------------
// Bounded-depth enumeration over an event alphabet ("exhaustive over an event alphabet", C04 / C06)
// ---------------------------------------------------------------------------------------------

/// Number of letters of the event alphabet (one application-level operation each, see `enum_letter`).
pub const ENUM_LETTERS: u64 = 15;
/// Starting uplink counters of the ABP configurations: the third send of a depth-3 history crosses the boundary.
pub const ENUM_UP0: [u32; 3] = [0, 0xFFFE, 0xFFFF_FFFD];
/// Configurations: 9 regions x 3 front-ends x (OTAA | ABP at three starting counters).
pub const ENUM_CFGS: u64 = 9 * 3 * 4;

/// Number of enumerated cases of exactly depth `d`.
pub fn enum_block(d: u32) -> u64 {
    ENUM_CFGS * ENUM_LETTERS.pow(d)
}

/// Number of enumerated cases of depth 1..=d.
pub fn enum_total(d: u32) -> u64 {
    (1..=d).map(enum_block).sum()
}

/// The largest depth whose histories are all among the first `n` enumerated cases.
pub fn enum_complete_depth(n: u64) -> u32 {
    let mut d = 0;
    while d < 8 && enum_total(d + 1) <= n {
        d += 1;
    }
    d
}

fn enum_letter(letter: u64, cfg: &WorldCfg, pos: usize) -> Op {
    let data = |rel: i64, confirmed: bool, ack: bool| {
        let mut d = DataSpec::plain(rel);
        d.confirmed = confirmed;
        d.ack = ack;
        d.body = Body::Data { port: 5, len: 2 };
        FrameSpec::Data(d)
    };
    let send = |confirmed: bool, txn: Txn| Op::Send { port: 7, len: 3, confirmed, txn };
    let mut t = Txn::default();
    match letter {
        0 => send(false, t),
        1 => send(true, t),
        2 => {
            t.rx1.push(data(1, false, false));
            send(false, t)
        }
        3 => {
            t.rx2.push(data(1, false, false));
            send(false, t)
        }
        4 => {
            t.rx1.push(data(1, false, true));
            send(true, t)
        }
        5 => {
            t.rx1.push(data(1, true, false));
            send(false, t)
        }
        6 => {
            let mut d = DataSpec::plain(1);
            d.tamper = Tamper::WrongNwkKey;
            d.body = Body::Data { port: 5, len: 2 };
            t.rx1.push(FrameSpec::Data(d));
            send(false, t)
        }
        7 => {
            t.rx1.push(FrameSpec::Replay(0));
            send(false, t)
        }
        8 => {
            let mut d = DataSpec::plain(1);
            d.fopts = vec![MacSpec::DevStatus, MacSpec::RxTimingSetup { del: 2 }];
            t.rx1.push(FrameSpec::Data(d));
            send(false, t)
        }
        9 => {
            if cfg.frontend == Frontend::AsyncC {
                t.gap1.push(data(1, false, false));
            } else {
                // the uplink just sent comes back (repeater, echo, recorded and re-sent)
                t.rx2.push(FrameSpec::Echo(0));
            }
            send(false, t)
        }
        10 => {
            if cfg.frontend == Frontend::AsyncC {
                Op::Listen { frames: vec![data(1, true, false)], fault: None }
            } else {
                t.fault = Some(Fault { pos: 2, extra: 0 });
                send(false, t)
            }
        }
        11 => {
            // settings equal to the regional defaults (the MAC configuration is not part of a persisted session)
            // (the JoinNonce differs from join to join, as a join server's does)
            let ja = JaSpec { join_nonce: 0x01_0203 + pos as u32, net_id: 0x13, devaddr: 0x2601_1234, dl_settings: rr::rx2_default(cfg.region).1, rx_delay: 1, cflist: None, tamper: Tamper::None };
            t.rx1.push(FrameSpec::JoinAccept(ja));
            Op::Join(t)
        }
        12 => Op::Join(t),
        13 => {
            t.fault = Some(Fault { pos: 0, extra: 0 });
            send(false, t)
        }
        _ => Op::SaveRestore,
    }
}

/// The `index`-th case of the enumeration: all histories of depth 1 over the alphabet in every configuration, then all
/// of depth 2, ... up to `max_depth`. `None` beyond that.
pub fn enum_case(index: u64, max_depth: u32) -> Option<MacCase> {
    let mut i = index;
    let mut depth = 1;
    loop {
        if depth > max_depth {
            return None;
        }
        let b = enum_block(depth);
        if i < b {
            break;
        }
        i -= b;
        depth += 1;
    }
    let c = i % ENUM_CFGS;
    let mut seq = i / ENUM_CFGS;
    let region = ALL_REGIONS[(c % 9) as usize];
    let frontend = [Frontend::Nb, Frontend::Async, Frontend::AsyncC][((c / 9) % 3) as usize];
    let act = c / 27;
    let mut cfg = WorldCfg::simple(region, frontend);
    cfg.otaa = act == 0;
    if act > 0 {
        cfg.fcnt_up0 = ENUM_UP0[(act - 1) as usize];
    }
    cfg.key_seed = simcore::mix(0x454e_554d, "enum-key", c);
    cfg.dev_seed = simcore::mix(0x454e_554d, "enum-dev", index);
    let mut ops = Vec::new();
    if cfg.otaa {
        // an OTAA device starts its life with a join; the enumerated history follows
        ops.push(enum_letter(11, &cfg, 0));
    }
    for _ in 0..depth {
        let pos = ops.len() + 1;
        ops.push(enum_letter(seq % ENUM_LETTERS, &cfg, pos));
        seq /= ENUM_LETTERS;
    }
    Some(MacCase { cfg, ops, knob: 0 })
}
