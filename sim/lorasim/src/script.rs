//! Symbolic scripts: a run is a pure function of (WorldCfg, Vec<Op>).
//! Frames are *materialised at delivery time* from the reference session, so
//! removing an earlier step leaves later steps meaningful (effective shrinking).

use serde::{Deserialize, Serialize};
use simcore::shrink::Shrinkable;

#[allow(non_camel_case_types)]
#[derive(Clone, Copy, Debug, PartialEq, Eq, PartialOrd, Ord, Serialize, Deserialize)]
pub enum RegionId {
    AS923_1,
    AS923_2,
    AS923_3,
    AS923_4,
    AU915,
    EU868,
    EU433,
    IN865,
    US915,
}

pub const ALL_REGIONS: [RegionId; 9] = [
    RegionId::AS923_1,
    RegionId::AS923_2,
    RegionId::AS923_3,
    RegionId::AS923_4,
    RegionId::AU915,
    RegionId::EU868,
    RegionId::EU433,
    RegionId::IN865,
    RegionId::US915,
];

impl RegionId {
    pub fn is_fixed(&self) -> bool {
        matches!(self, RegionId::AU915 | RegionId::US915)
    }
}

#[derive(Clone, Copy, Debug, PartialEq, Eq, Serialize, Deserialize)]
pub enum Frontend {
    /// `nb_device::Device` (explicit event state machine)
    Nb,
    /// `async_device::Device`, Class A
    Async,
    /// `async_device::Device` with Class C enabled
    AsyncC,
}

/// (MAX_RADIO_POWER, ANTENNA_GAIN) of the simulated boards (associated consts of the radio type).
pub const BOARDS: [(u8, i8); 5] = [(14, 0), (22, 3), (30, -2), (5, 0), (17, -1)];

/// Radio-buffer size (const generic N) of the "small buffer" device variant.
pub const SMALL_N: usize = 64;

#[derive(Clone, Debug, PartialEq, Eq, Serialize, Deserialize)]
pub struct WorldCfg {
    pub region: RegionId,
    pub frontend: Frontend,
    /// true: the device starts unjoined with OTAA credentials; false: ABP session installed at start
    pub otaa: bool,
    /// index into BOARDS
    pub board: u8,
    /// async: Timings::get_rx_window_lead_time_ms
    pub lead_ms: u32,
    /// async: Timings::get_rx_window_buffer (None: default = lead time)
    pub buffer_ms: Option<u32>,
    /// nb: Timings::get_rx_window_offset_ms
    pub nb_offset_ms: i32,
    /// nb: Timings::get_rx_window_duration_ms
    pub nb_duration_ms: u32,
    /// fixed-plan regions: (subband 1..=8, max retries)
    pub join_bias: Option<(u8, u8)>,
    /// starting counters of the ABP session
    pub fcnt_up0: u32,
    pub fcnt_down0: Option<u32>,
    /// keys, address and EUIs are derived from this
    pub key_seed: u64,
    /// base seed of the device RNG (re-seeded per operation from (dev_seed, op index))
    pub dev_seed: u64,
    /// async front-ends: instantiate the device with a radio buffer of SMALL_N bytes (board 0)
    #[serde(default)]
    pub small_buffer: bool,
    /// full-stack configuration (async front-ends): the real lora-phy adapter, mode layer and chip driver on a
    /// simulated chip instead of the stub radio
    #[serde(default)]
    pub phy: Option<crate::stack::PhyCfg>,
    /// an application that collects its downlinks only now and then, on a device with the default downlink
    /// queue of one entry (board 0, stub radio)
    #[serde(default)]
    pub lazy_app: bool,
    /// nb front-end (C20): a stored session is not always installed into a device that has done nothing yet: the
    /// application may re-install it on the running device, or the fresh device may first have tried to join (nobody
    /// answered) or have run on another session for one uplink
    #[serde(default)]
    pub restore_into_used: bool,
    /// an uplink-only application: the device is built with a downlink queue of depth D = 0 (board 0, stub radio);
    /// only C04 draws it (payloads cannot be delivered, so the other oracles have nothing to compare)
    #[serde(default)]
    pub dl_queue0: bool,
    /// where the board's millisecond clock stands when the run starts: 0 = 1 s after power-up, 1 = a few seconds
    /// before 2^31 ms (24.8 days of uptime), 2 = a few seconds before it wraps at 2^32 ms (49.7 days), 3 = one
    /// minute before 2^31 ms
    #[serde(default)]
    pub clock_epoch: u8,
}

impl WorldCfg {
    pub fn simple(region: RegionId, frontend: Frontend) -> Self {
        WorldCfg {
            region,
            frontend,
            otaa: false,
            board: 0,
            lead_ms: 50,
            buffer_ms: None,
            nb_offset_ms: 0,
            nb_duration_ms: 100,
            join_bias: None,
            fcnt_up0: 0,
            fcnt_down0: None,
            key_seed: 1,
            dev_seed: 1,
            small_buffer: false,
            phy: None,
            lazy_app: false,
            restore_into_used: false,
            dl_queue0: false,
            clock_epoch: 0,
        }
    }
}

/// The millisecond clock value a run starts at (see `WorldCfg::clock_epoch`).
pub fn clock_start_ms(epoch: u8) -> u64 {
    match epoch {
        1 => (1u64 << 31) - 2_500,
        2 => (1u64 << 32) - 2_500,
        3 => (1u64 << 31) - 60_000,
        _ => 1000,
    }
}

#[derive(Clone, Debug, PartialEq, Eq, Serialize, Deserialize)]
pub enum MacSpec {
    LinkAdr { dr: u8, pow: u8, mask: u16, ctl: u8, nbtrans: u8 },
    /// freq is the raw 24-bit value (units of 100 Hz)
    RxParamSetup { rx1off: u8, rx2dr: u8, freq: u32 },
    RxTimingSetup { del: u8 },
    NewChannel { idx: u8, freq: u32, drrange: u8 },
    DlChannel { idx: u8, freq: u32 },
    DevStatus,
    DutyCycle { v: u8 },
    TxParamSetup { v: u8 },
    LinkCheckAns { margin: u8, gw: u8 },
    DeviceTimeAns { secs: u32, frac: u8 },
    /// arbitrary bytes (unknown CID, truncated command, ...)
    Raw(Vec<u8>),
}

impl MacSpec {
    pub fn encode(&self, out: &mut Vec<u8>) {
        fn f24(out: &mut Vec<u8>, f: u32) {
            out.extend_from_slice(&[f as u8, (f >> 8) as u8, (f >> 16) as u8]);
        }
        match self {
            MacSpec::LinkAdr { dr, pow, mask, ctl, nbtrans } => {
                out.push(0x03);
                out.push((dr << 4) | (pow & 0x0f));
                out.extend_from_slice(&mask.to_le_bytes());
                out.push(((ctl & 7) << 4) | (nbtrans & 0x0f));
            }
            MacSpec::RxParamSetup { rx1off, rx2dr, freq } => {
                out.push(0x05);
                out.push(((rx1off & 7) << 4) | (rx2dr & 0x0f));
                f24(out, *freq);
            }
            MacSpec::RxTimingSetup { del } => {
                out.push(0x08);
                out.push(*del);
            }
            MacSpec::NewChannel { idx, freq, drrange } => {
                out.push(0x07);
                out.push(*idx);
                f24(out, *freq);
                out.push(*drrange);
            }
            MacSpec::DlChannel { idx, freq } => {
                out.push(0x0A);
                out.push(*idx);
                f24(out, *freq);
            }
            MacSpec::DevStatus => out.push(0x06),
            MacSpec::DutyCycle { v } => {
                out.push(0x04);
                out.push(*v);
            }
            MacSpec::TxParamSetup { v } => {
                out.push(0x09);
                out.push(*v);
            }
            MacSpec::LinkCheckAns { margin, gw } => {
                out.push(0x02);
                out.push(*margin);
                out.push(*gw);
            }
            MacSpec::DeviceTimeAns { secs, frac } => {
                out.push(0x0D);
                out.extend_from_slice(&secs.to_le_bytes());
                out.push(*frac);
            }
            MacSpec::Raw(b) => out.extend_from_slice(b),
        }
    }
    pub fn encoded_len(&self) -> usize {
        let mut v = Vec::new();
        self.encode(&mut v);
        v.len()
    }
    pub fn kind(&self) -> &'static str {
        match self {
            MacSpec::LinkAdr { .. } => "LinkAdr",
            MacSpec::RxParamSetup { .. } => "RxParamSetup",
            MacSpec::RxTimingSetup { .. } => "RxTimingSetup",
            MacSpec::NewChannel { .. } => "NewChannel",
            MacSpec::DlChannel { .. } => "DlChannel",
            MacSpec::DevStatus => "DevStatus",
            MacSpec::DutyCycle { .. } => "DutyCycle",
            MacSpec::TxParamSetup { .. } => "TxParamSetup",
            MacSpec::LinkCheckAns { .. } => "LinkCheckAns",
            MacSpec::DeviceTimeAns { .. } => "DeviceTimeAns",
            MacSpec::Raw(_) => "Raw",
        }
    }
}

pub fn encode_macs(macs: &[MacSpec]) -> Vec<u8> {
    let mut v = Vec::new();
    for m in macs {
        m.encode(&mut v);
    }
    v
}

#[derive(Clone, Debug, PartialEq, Eq, Serialize, Deserialize)]
pub enum Fcnt {
    /// relative to the last counter the reference model saw accepted (first downlink: relative to -1)
    Rel(i64),
    Abs(u32),
}

#[derive(Clone, Debug, PartialEq, Eq, Serialize, Deserialize)]
pub enum Body {
    None,
    Port0(Vec<MacSpec>),
    Data { port: u8, len: u8 },
}

#[derive(Clone, Debug, PartialEq, Eq, Serialize, Deserialize)]
pub enum Tamper {
    None,
    /// flip bit (index modulo frame bits)
    BitFlip(u16),
    /// MIC computed under another network session key
    WrongNwkKey,
    /// frame of another session: other DevAddr and other keys
    ForeignSession,
    /// drop n trailing bytes
    Truncate(u8),
    /// append n bytes
    Extend(u8),
    /// MIC computed with the counter of the next/previous 16-bit epoch (wire counter unchanged)
    MicEpoch(i8),
    /// replace the MIC by 4 fixed bytes
    ZeroMic,
    /// an authentic frame with an out-of-range header field: one byte of MHDR / FHDR / FOpts / FPort (offset modulo
    /// the frame body) is XOR-ed and the MIC is then computed, under the right key, over the mutated frame
    Resigned { offset: u8, xor: u8 },
}

#[derive(Clone, Debug, PartialEq, Eq, Serialize, Deserialize)]
pub struct DataSpec {
    pub fcnt: Fcnt,
    pub confirmed: bool,
    pub ack: bool,
    pub fpending: bool,
    pub adr: bool,
    pub fopts: Vec<MacSpec>,
    pub body: Body,
    pub tamper: Tamper,
}

impl DataSpec {
    pub fn plain(rel: i64) -> Self {
        DataSpec { fcnt: Fcnt::Rel(rel), confirmed: false, ack: false, fpending: false, adr: false, fopts: vec![], body: Body::None, tamper: Tamper::None }
    }
}

#[derive(Clone, Debug, PartialEq, Eq, Serialize, Deserialize)]
pub struct JaSpec {
    pub join_nonce: u32,
    pub net_id: u32,
    pub devaddr: u32,
    pub dl_settings: u8,
    pub rx_delay: u8,
    /// 16 raw CFList bytes
    pub cflist: Option<Vec<u8>>,
    pub tamper: Tamper,
}

#[derive(Clone, Debug, PartialEq, Eq, Serialize, Deserialize)]
pub enum FrameSpec {
    Data(DataSpec),
    JoinAccept(JaSpec),
    Raw(Vec<u8>),
    /// replay, verbatim, the k-th downlink frame materialised earlier in this run (modulo count)
    Replay(u16),
    /// reflect, verbatim, one of the device's own uplinks of this run back at it (0 = the most recent one, modulo
    /// count): what a repeater, a multipath echo or an adversary recording and re-sending the uplink produces
    Echo(u16),
}

impl FrameSpec {
    pub fn kind(&self) -> &'static str {
        match self {
            FrameSpec::Data(_) => "Data",
            FrameSpec::JoinAccept(_) => "JoinAccept",
            FrameSpec::Raw(_) => "Raw",
            FrameSpec::Replay(_) => "Replay",
            FrameSpec::Echo(_) => "Echo",
        }
    }
}

#[derive(Clone, Debug, PartialEq, Eq, Serialize, Deserialize)]
pub struct Fault {
    /// radio-call position within the operation (0 = the transmit request)
    pub pos: u16,
    /// the radio stays unresponsive for this many further calls (an outage rather than one failed call)
    #[serde(default)]
    pub extra: u16,
}

#[derive(Clone, Debug, PartialEq, Eq, Serialize, Deserialize, Default)]
pub struct Txn {
    /// async: value returned by `tx()`; nb: on-air time before `TxDone`
    pub tx_ms: u32,
    /// nb: the radio answers `Txing` and completes with a later radio event
    pub nb_deferred_tx: bool,
    /// Class C: frames heard between TX and RX1
    pub gap1: Vec<FrameSpec>,
    /// frames heard in RX1 (async: at most one is consumed)
    pub rx1: Vec<FrameSpec>,
    /// Class C: frames heard between RX1 and RX2
    pub gap2: Vec<FrameSpec>,
    pub rx2: Vec<FrameSpec>,
    /// radio error returned from the call at this position
    pub fault: Option<Fault>,
    /// nb: lateness (ms) added to every timeout the application fires
    pub nb_timer_late_ms: u32,
    /// nb: number of spurious TimeoutFired / noise radio events injected while waiting
    pub nb_spurious: u8,
    /// nb: the application calls set_datarate(dr) after TxDone, before RX1 opens ("bound at TX time")
    #[serde(default)]
    pub nb_set_dr_mid: Option<u8>,
    /// nb: the power is cut in the middle of the procedure (1 = after TxDone, before RX1 opens; 2 = between RX1 and
    /// RX2); the application had stored the session at that moment and restores a fresh device from it (C20)
    #[serde(default)]
    pub nb_power_cut: Option<u8>,
    /// nb: the application issues a request that the state machine cannot serve now, at the given point of the
    /// procedure (bits 0-1: 1 = while waiting for RX1 to open, 2 = inside RX1, 3 = while waiting for RX2;
    /// bits 2-3: 0 = SendDataRequest, 1 = Join, 2 = a stray TxComplete radio event); it must be refused and change nothing
    #[serde(default)]
    pub nb_intrude: u8,
    /// Join: the application has re-provisioned the device: this attempt (and later ones) use the other set of
    /// OTAA credentials (JoinEUI, DevEUI, AppKey)
    #[serde(default)]
    pub alt_identity: bool,
    /// the application's RNG has a bad moment: the first `count` numbers it hands out during this operation are all
    /// `value` (then it recovers): (value, count)
    #[serde(default)]
    pub rng_stuck: Option<(u32, u16)>,
    /// nb: the radio answers the transmit request with a response that is neither an error nor Txing / TxDone
    /// (1 = Idle, 2 = Rxing): it declined the request
    #[serde(default)]
    pub nb_tx_declined: u8,
    /// async (stub radio): the application abandons the operation: the `join()` / `send()` future is dropped at its
    /// k-th wait (radio calls and timer waits of the operation counted together from 0). A radio call has taken
    /// effect when its wait is abandoned (the frame was handed over, the receiver configured); a receive window or
    /// a timer wait is abandoned before anything is heard or the time has passed.
    #[serde(default)]
    pub cancel_at: Option<u16>,
}

#[derive(Clone, Debug, PartialEq, Eq, Serialize, Deserialize)]
pub enum Op {
    Join(Txn),
    Send { port: u8, len: u8, confirmed: bool, txn: Txn },
    SetDr(u8),
    SetAdr(bool),
    /// async Class C: idle listening; frames heard one after the other, then the listen future is dropped
    Listen { frames: Vec<FrameSpec>, fault: Option<Fault> },
    /// serialise the session, drop the device, restore a fresh one from the text
    SaveRestore,
    /// like SaveRestore, but the stored document is structurally mutated first (C20)
    RestoreMutated(JsonMutation),
    /// the application calls an API out of order (send while unjoined etc.)
    Misuse(u8),
}

#[derive(Clone, Debug, PartialEq, Eq, Serialize, Deserialize)]
pub struct JsonMutation {
    pub kind: u8,
    pub arg: u64,
}

impl Op {
    pub fn kind(&self) -> &'static str {
        match self {
            Op::Join(_) => "Join",
            Op::Send { .. } => "Send",
            Op::SetDr(_) => "SetDr",
            Op::SetAdr(_) => "SetAdr",
            Op::Listen { .. } => "Listen",
            Op::SaveRestore => "SaveRestore",
            Op::RestoreMutated(_) => "RestoreMutated",
            Op::Misuse(_) => "Misuse",
        }
    }
    pub fn txn(&self) -> Option<&Txn> {
        match self {
            Op::Join(t) => Some(t),
            Op::Send { txn, .. } => Some(txn),
            _ => None,
        }
    }
    pub fn txn_mut(&mut self) -> Option<&mut Txn> {
        match self {
            Op::Join(t) => Some(t),
            Op::Send { txn, .. } => Some(txn),
            _ => None,
        }
    }
}

/// A complete case: configuration + script (+ which optional behaviours the property run enables).
#[derive(Clone, Debug, PartialEq, Eq, Serialize, Deserialize)]
pub struct MacCase {
    pub cfg: WorldCfg,
    pub ops: Vec<Op>,
    /// property-specific knob (e.g. C07: index of the twin variant; C09: forced RNG draw)
    #[serde(default)]
    pub knob: u64,
}

fn simplify_frames(frames: &[FrameSpec]) -> Vec<Vec<FrameSpec>> {
    let mut out = Vec::new();
    // drop single frames
    for i in 0..frames.len() {
        let mut f = frames.to_vec();
        f.remove(i);
        out.push(f);
    }
    // simplify single frames
    for i in 0..frames.len() {
        if let FrameSpec::Data(d) = &frames[i] {
            let mut cands: Vec<DataSpec> = Vec::new();
            if !d.fopts.is_empty() {
                for j in 0..d.fopts.len() {
                    let mut c = d.clone();
                    c.fopts.remove(j);
                    cands.push(c);
                }
            }
            match &d.body {
                Body::Port0(m) if !m.is_empty() => {
                    for j in 0..m.len() {
                        let mut mm = m.clone();
                        mm.remove(j);
                        let mut c = d.clone();
                        c.body = if mm.is_empty() { Body::None } else { Body::Port0(mm) };
                        cands.push(c);
                    }
                }
                Body::Data { port, len } if *len > 0 => {
                    let mut c = d.clone();
                    c.body = Body::Data { port: *port, len: 0 };
                    cands.push(c);
                    let mut c = d.clone();
                    c.body = Body::None;
                    cands.push(c);
                }
                Body::Data { .. } => {
                    let mut c = d.clone();
                    c.body = Body::None;
                    cands.push(c);
                }
                _ => {}
            }
            if d.tamper != Tamper::None {
                let mut c = d.clone();
                c.tamper = Tamper::None;
                cands.push(c);
            }
            if d.confirmed {
                let mut c = d.clone();
                c.confirmed = false;
                cands.push(c);
            }
            if d.ack || d.fpending || d.adr {
                let mut c = d.clone();
                c.ack = false;
                c.fpending = false;
                c.adr = false;
                cands.push(c);
            }
            if d.fcnt != Fcnt::Rel(1) {
                let mut c = d.clone();
                c.fcnt = Fcnt::Rel(1);
                cands.push(c);
            }
            for c in cands {
                let mut f = frames.to_vec();
                f[i] = FrameSpec::Data(c);
                out.push(f);
            }
        }
        if let FrameSpec::JoinAccept(j) = &frames[i] {
            let mut cands: Vec<JaSpec> = Vec::new();
            if j.cflist.is_some() {
                let mut c = j.clone();
                c.cflist = None;
                cands.push(c);
            }
            if j.dl_settings != 0 {
                let mut c = j.clone();
                c.dl_settings = 0;
                cands.push(c);
            }
            if j.rx_delay != 0 {
                let mut c = j.clone();
                c.rx_delay = 0;
                cands.push(c);
            }
            if j.tamper != Tamper::None {
                let mut c = j.clone();
                c.tamper = Tamper::None;
                cands.push(c);
            }
            for c in cands {
                let mut f = frames.to_vec();
                f[i] = FrameSpec::JoinAccept(c);
                out.push(f);
            }
        }
        if let FrameSpec::Raw(b) = &frames[i] {
            if b.len() > 1 {
                let mut f = frames.to_vec();
                f[i] = FrameSpec::Raw(b[..b.len() / 2].to_vec());
                out.push(f);
            }
        }
    }
    out
}

fn simplify_txn(t: &Txn) -> Vec<Txn> {
    let mut out = Vec::new();
    if let Some(f) = &t.fault {
        if f.extra > 0 {
            for e in [0, f.extra / 2, f.extra - 1] {
                if e < f.extra {
                    let mut c = t.clone();
                    c.fault = Some(Fault { pos: f.pos, extra: e });
                    out.push(c);
                }
            }
        }
    }
    if t.fault.is_some() {
        let mut c = t.clone();
        c.fault = None;
        out.push(c);
    }
    if t.nb_deferred_tx || t.nb_timer_late_ms != 0 || t.nb_spurious != 0 || t.tx_ms != 0 {
        let mut c = t.clone();
        c.nb_deferred_tx = false;
        c.nb_timer_late_ms = 0;
        c.nb_spurious = 0;
        c.tx_ms = 0;
        out.push(c);
    }
    if t.nb_intrude != 0 {
        let mut c = t.clone();
        c.nb_intrude = 0;
        out.push(c);
    }
    if t.alt_identity {
        let mut c = t.clone();
        c.alt_identity = false;
        out.push(c);
    }
    if t.nb_tx_declined != 0 {
        let mut c = t.clone();
        c.nb_tx_declined = 0;
        out.push(c);
    }
    if let Some((v, k)) = t.rng_stuck {
        let mut c = t.clone();
        c.rng_stuck = None;
        out.push(c);
        if k > 1 {
            let mut c = t.clone();
            c.rng_stuck = Some((v, k / 2));
            out.push(c);
        }
    }
    if let Some(k) = t.cancel_at {
        let mut c = t.clone();
        c.cancel_at = None;
        out.push(c);
        if k > 0 {
            let mut c = t.clone();
            c.cancel_at = Some(0);
            out.push(c);
        }
    }
    if t.nb_power_cut == Some(2) {
        let mut c = t.clone();
        c.nb_power_cut = Some(1);
        out.push(c);
    }
    if t.nb_set_dr_mid.is_some() {
        let mut c = t.clone();
        c.nb_set_dr_mid = None;
        out.push(c);
    }
    for (sel, frames) in [(0, &t.gap1), (1, &t.rx1), (2, &t.gap2), (3, &t.rx2)] {
        for f in simplify_frames(frames) {
            let mut c = t.clone();
            match sel {
                0 => c.gap1 = f,
                1 => c.rx1 = f,
                2 => c.gap2 = f,
                _ => c.rx2 = f,
            }
            out.push(c);
        }
    }
    out
}

impl Shrinkable for MacCase {
    fn parts(&self) -> usize {
        self.ops.len()
    }
    fn without(&self, lo: usize, hi: usize) -> Self {
        let mut c = self.clone();
        c.ops.drain(lo..hi.min(c.ops.len()));
        c
    }
    fn simplifications(&self) -> Vec<Self> {
        let mut out = Vec::new();
        // configuration
        let simple = WorldCfg { key_seed: self.cfg.key_seed, dev_seed: self.cfg.dev_seed, otaa: self.cfg.otaa, ..WorldCfg::simple(self.cfg.region, self.cfg.frontend) };
        if self.cfg != simple {
            // try one field at a time towards the simple configuration
            let mut fields: Vec<WorldCfg> = Vec::new();
            let mut c = self.cfg.clone();
            c.board = 0;
            fields.push(c);
            let mut c = self.cfg.clone();
            c.lead_ms = 50;
            c.buffer_ms = None;
            c.nb_offset_ms = 0;
            c.nb_duration_ms = 100;
            fields.push(c);
            let mut c = self.cfg.clone();
            c.join_bias = None;
            fields.push(c);
            let mut c = self.cfg.clone();
            c.small_buffer = false;
            fields.push(c);
            let mut c = self.cfg.clone();
            c.phy = None;
            fields.push(c);
            let mut c = self.cfg.clone();
            c.lazy_app = false;
            fields.push(c);
            let mut c = self.cfg.clone();
            c.restore_into_used = false;
            fields.push(c);
            let mut c = self.cfg.clone();
            c.dl_queue0 = false;
            fields.push(c);
            let mut c = self.cfg.clone();
            c.clock_epoch = 0;
            fields.push(c);
            let mut c = self.cfg.clone();
            c.fcnt_up0 = 0;
            fields.push(c);
            let mut c = self.cfg.clone();
            c.fcnt_down0 = None;
            fields.push(c);
            if self.cfg.frontend == Frontend::AsyncC {
                let mut c = self.cfg.clone();
                c.frontend = Frontend::Async;
                fields.push(c);
            }
            for f in fields {
                if f != self.cfg {
                    out.push(MacCase { cfg: f, ops: self.ops.clone(), knob: self.knob });
                }
            }
        }
        for (i, op) in self.ops.iter().enumerate() {
            let mut cands: Vec<Op> = Vec::new();
            match op {
                Op::Join(t) => {
                    for c in simplify_txn(t) {
                        cands.push(Op::Join(c));
                    }
                }
                Op::Send { port, len, confirmed, txn } => {
                    if *len > 0 {
                        cands.push(Op::Send { port: *port, len: 0, confirmed: *confirmed, txn: txn.clone() });
                        if *len > 1 {
                            cands.push(Op::Send { port: *port, len: 1, confirmed: *confirmed, txn: txn.clone() });
                        }
                    }
                    if *confirmed {
                        cands.push(Op::Send { port: *port, len: *len, confirmed: false, txn: txn.clone() });
                    }
                    if *port != 1 {
                        cands.push(Op::Send { port: 1, len: *len, confirmed: *confirmed, txn: txn.clone() });
                    }
                    for c in simplify_txn(txn) {
                        cands.push(Op::Send { port: *port, len: *len, confirmed: *confirmed, txn: c });
                    }
                }
                Op::Listen { frames, fault } => {
                    if fault.is_some() {
                        cands.push(Op::Listen { frames: frames.clone(), fault: None });
                    }
                    for f in simplify_frames(frames) {
                        cands.push(Op::Listen { frames: f, fault: fault.clone() });
                    }
                }
                _ => {}
            }
            for c in cands {
                let mut ops = self.ops.clone();
                ops[i] = c;
                out.push(MacCase { cfg: self.cfg.clone(), ops, knob: self.knob });
            }
        }
        out
    }
}
