//! lorasim — deterministic simulation with fault injection for the lora-rs
//! LoRaWAN MAC (lorawan-device). See /verif/DESIGN.md.

pub mod dut;
pub mod exec;
pub mod expect;
pub mod gen;
pub mod mutate;
pub mod props;
pub mod refcodec;
pub mod refmac;
pub mod refregion;
pub mod script;
pub mod snapshot;
pub mod stack;
pub mod world;

use simcore::*;
use std::path::Path;

pub fn self_test_refs() -> Result<(), String> {
    refcodec::self_test()?;
    refregion::self_test()?;
    Ok(())
}

pub fn components_mac() -> serde_json::Value {
    serde_json::json!({
        "real": [
            "lorawan_device::async_device::Device", "lorawan_device::nb_device::Device", "lorawan_device::mac::*",
            "lorawan_device::region::*", "lorawan (frame codec, DefaultCrypto AES/CMAC)",
            "full-stack runs only (WorldCfg.phy, async front-ends): lora_phy::lorawan_radio::LorawanRadio, lora_phy::LoRa, lora_phy::sx126x::Sx126x (Sx1261/Sx1262/Stm32wl) or lora_phy::sx127x::Sx127x (Sx1272/Sx1276) under the MAC"
        ],
        "stub": [
            "radio (SimRadio: both PhyRxTx traits, results decided by the script); in full-stack runs instead: the radio chip (physim ChipModel126x / ChipModel127x), SPI bus, BUSY / IRQ / reset lines and delay (physim SimSpi / SimIv / SimDelay)", "timer / application event loop (simulated clock)",
            "device RNG (SimRng: per-operation seeded stream, draw budget)", "network server / join server / gateway (RefNs over the independent reference codec)",
            "ether and adversary (script: loss, duplication, reordering, corruption, foreign traffic)", "persistent storage (serde_json string)"
        ]
    })
}

fn usage() -> i32 {
    eprintln!("usage: lorasim check <C04|C05|...> <quick|thorough>\n       lorasim replay <file>\n       lorasim selftest");
    EXIT_HARNESS
}

macro_rules! dispatch {
    ($id:expr, $f:ident, $($arg:expr),*) => {
        match $id {
            "C04" => $f(&props::c04::C04, $($arg),*),
            "C05" => $f(&props::c05::C05, $($arg),*),
            "C06" => $f(&props::c06::C06, $($arg),*),
            "C07" => $f(&props::c07::C07, $($arg),*),
            "C08" => $f(&props::c08::C08, $($arg),*),
            "C09" => $f(&props::c09::C09, $($arg),*),
            "C10" => $f(&props::c10::C10, $($arg),*),
            "C11" => $f(&props::c11::C11, $($arg),*),
            "C12" => $f(&props::c12::C12, $($arg),*),
            "C20" => $f(&props::c20::C20, $($arg),*),
            other => {
                println!("HARNESS-ERROR unknown property {other}");
                EXIT_HARNESS
            }
        }
    };
}

fn main() {
    let args: Vec<String> = std::env::args().skip(1).collect();
    let code = match args.first().map(|s| s.as_str()) {
        Some("check") if args.len() >= 3 => {
            let tier = match args[2].as_str() {
                "quick" => Tier::Quick,
                "thorough" => Tier::Thorough,
                _ => std::process::exit(usage()),
            };
            let tier = match std::env::var("VERIF_TIER").ok().as_deref() {
                Some("quick") => Tier::Quick,
                Some("thorough") => Tier::Thorough,
                _ => tier,
            };
            let opts = Opts::from_env(tier);
            let id = args[1].as_str();
            dispatch!(id, run_check, &opts)
        }
        Some("replay") if args.len() >= 2 => {
            let path = Path::new(&args[1]);
            match replay_property(path) {
                Ok(id) => {
                    let id = id.as_str();
                    dispatch!(id, run_replay, path)
                }
                Err(e) => {
                    println!("HARNESS-ERROR {e}");
                    EXIT_HARNESS
                }
            }
        }
        Some("tables") => {
            // triage aid: regional maximum payload tables of /repo vs the reference (not a check)
            for region in script::ALL_REGIONS {
                let cfg = script::WorldCfg::simple(region, script::Frontend::Async);
                let rc = dut::region_config(&cfg);
                for dr in 0..15u8 {
                    let repo = rc.get_max_payload_length(lorawan_device::region::DR::from(dr), false, false);
                    let reference = refregion::dr_def(region, dr).map(|d| d.max_mac).unwrap_or(0);
                    if repo != reference {
                        println!("{region:?} DR{dr}: repo M={repo} reference M={reference}");
                    }
                }
            }
            0
        }
        Some("selftest") => match self_test_refs() {
            Ok(()) => {
                println!("reference models: self-test ok");
                0
            }
            Err(e) => {
                println!("HARNESS-ERROR reference self-test failed: {e}");
                EXIT_HARNESS
            }
        },
        _ => usage(),
    };
    std::process::exit(code);
}
