//! Executable reference model of MAC-command handling (DESIGN Appendix A).
//!
//! The model is stepped *by the device's own answers*: an answer whose status bits are all
//! ones means "apply the command exactly as RP002 / LoRaWAN define it", any zero bit means
//! "nothing changes". Independently, requests on the short *unambiguously invalid* list must be
//! answered with a rejection.

use crate::refregion as rr;
use crate::script::RegionId;
use crate::snapshot::{Snap, SnapChannel};

#[derive(Clone, Debug, PartialEq, Eq)]
pub enum Req {
    LinkAdr { dr: u8, pow: u8, mask: u16, ctl: u8, nbtrans: u8 },
    RxParamSetup { rx1off: u8, rx2dr: u8, freq_hz: u32 },
    DevStatus,
    NewChannel { idx: u8, freq_hz: u32, drrange: u8 },
    RxTimingSetup { del: u8 },
    DlChannel { idx: u8, freq_hz: u32 },
    /// commands the device may ignore or answer (no state change is predicted)
    DutyCycle,
    TxParamSetup,
    LinkCheckAns,
    DeviceTimeAns,
}

/// Parse a downlink MAC-command stream: the well-formed prefix (cut at the first unknown CID or
/// truncated command).
pub fn parse_downlink_cmds(b: &[u8]) -> Vec<Req> {
    let mut v = Vec::new();
    let mut i = 0;
    while i < b.len() {
        let cid = b[i];
        let len = match cid {
            0x02 => 2,
            0x03 => 4,
            0x04 => 1,
            0x05 => 4,
            0x06 => 0,
            0x07 => 5,
            0x08 => 1,
            0x09 => 1,
            0x0A => 4,
            0x0D => 5,
            _ => break,
        };
        if i + 1 + len > b.len() {
            break;
        }
        let p = &b[i + 1..i + 1 + len];
        let f = |x: &[u8]| (x[0] as u32 | (x[1] as u32) << 8 | (x[2] as u32) << 16) * 100;
        v.push(match cid {
            0x02 => Req::LinkCheckAns,
            0x03 => Req::LinkAdr { dr: p[0] >> 4, pow: p[0] & 0x0f, mask: u16::from_le_bytes([p[1], p[2]]), ctl: (p[3] >> 4) & 7, nbtrans: p[3] & 0x0f },
            0x04 => Req::DutyCycle,
            0x05 => Req::RxParamSetup { rx1off: (p[0] >> 4) & 7, rx2dr: p[0] & 0x0f, freq_hz: f(&p[1..4]) },
            0x06 => Req::DevStatus,
            0x07 => Req::NewChannel { idx: p[0], freq_hz: f(&p[1..4]), drrange: p[4] },
            0x08 => Req::RxTimingSetup { del: p[0] & 0x0f },
            0x09 => Req::TxParamSetup,
            0x0A => Req::DlChannel { idx: p[0], freq_hz: f(&p[1..4]) },
            _ => Req::DeviceTimeAns,
        });
        i += 1 + len;
    }
    v
}

#[derive(Clone, Debug, PartialEq, Eq)]
pub struct Ans {
    pub cid: u8,
    pub payload: Vec<u8>,
}

impl Ans {
    pub fn len(&self) -> usize {
        1 + self.payload.len()
    }
    pub fn is_sticky(&self) -> bool {
        matches!(self.cid, 0x05 | 0x08 | 0x0A)
    }
    pub fn status(&self) -> u8 {
        self.payload.first().copied().unwrap_or(0)
    }
}

/// Parse an uplink MAC-command stream into whole commands. `Err` when the bytes are not a sequence
/// of whole, known uplink commands (a partial command is a violation in itself).
pub fn parse_uplink_cmds(b: &[u8]) -> Result<Vec<Ans>, String> {
    let mut v = Vec::new();
    let mut i = 0;
    while i < b.len() {
        let cid = b[i];
        let len = match cid {
            0x02 => 0,
            0x03 => 1,
            0x04 => 0,
            0x05 => 1,
            0x06 => 2,
            0x07 => 1,
            0x08 => 0,
            0x09 => 0,
            0x0A => 1,
            0x0D => 0,
            _ => return Err(format!("unknown uplink CID {cid:#04x} at offset {i}")),
        };
        if i + 1 + len > b.len() {
            return Err(format!("truncated uplink command {cid:#04x} at offset {i}"));
        }
        v.push(Ans { cid, payload: b[i + 1..i + 1 + len].to_vec() });
        i += 1 + len;
    }
    Ok(v)
}

/// One expected answer: the CID, and which request indices it answers (a LinkADRReq block is
/// answered by identical copies, one per command).
#[derive(Clone, Debug, PartialEq, Eq)]
pub struct ExpAns {
    pub cid: u8,
    pub len: usize,
    /// index of the request in the stream
    pub req: usize,
    /// id of the LinkADRReq block (maximal run of adjacent LinkADRReq), if any
    pub block: Option<usize>,
}

/// Expected (mandatory) answers of one command stream, in request order.
pub fn expected_answers(region: RegionId, reqs: &[Req]) -> Vec<ExpAns> {
    let mut v = Vec::new();
    let mut block_id = 0usize;
    let mut prev_adr = false;
    for (i, r) in reqs.iter().enumerate() {
        let is_adr = matches!(r, Req::LinkAdr { .. });
        if is_adr && !prev_adr {
            block_id += 1;
        }
        prev_adr = is_adr;
        match r {
            Req::LinkAdr { .. } => v.push(ExpAns { cid: 0x03, len: 2, req: i, block: Some(block_id) }),
            Req::RxParamSetup { .. } => v.push(ExpAns { cid: 0x05, len: 2, req: i, block: None }),
            Req::DevStatus => v.push(ExpAns { cid: 0x06, len: 3, req: i, block: None }),
            Req::RxTimingSetup { .. } => v.push(ExpAns { cid: 0x08, len: 1, req: i, block: None }),
            Req::NewChannel { .. } if !region.is_fixed() => v.push(ExpAns { cid: 0x07, len: 2, req: i, block: None }),
            Req::DlChannel { .. } if !region.is_fixed() => v.push(ExpAns { cid: 0x0A, len: 2, req: i, block: None }),
            _ => {}
        }
    }
    v
}

/// RP002 RFU data-rate indices (never a valid DataRate / RX2DataRate field value; 15 is handled by the caller).
pub fn dr_is_rfu(region: RegionId, dr: u8) -> bool {
    match region {
        RegionId::EU868 => (12..=14).contains(&dr),
        RegionId::EU433 => (8..=14).contains(&dr),
        RegionId::IN865 => dr == 6 || (8..=14).contains(&dr),
        RegionId::AS923_1 | RegionId::AS923_2 | RegionId::AS923_3 | RegionId::AS923_4 => (8..=14).contains(&dr),
        RegionId::US915 => dr == 7 || dr == 14,
        RegionId::AU915 => dr == 14,
    }
}

fn n_join(region: RegionId) -> usize {
    rr::default_channels(region).len()
}

/// Model state: the configuration + plan part of a snapshot.
#[derive(Clone, Debug)]
pub struct Model {
    pub region: RegionId,
    pub s: Snap,
}

#[derive(Clone, Debug, Default)]
pub struct StepReport {
    /// requests that are unambiguously invalid but were fully acknowledged
    pub invalid_accepted: Vec<String>,
    /// requests whose answer was dropped (not carried): effect unknown, both outcomes admissible
    pub unknown_effect: Vec<usize>,
    /// per request: Some(true) acked, Some(false) naked, None no status / not answered
    pub acked: Vec<Option<bool>>,
}

impl Model {
    pub fn new(region: RegionId, before: &Snap) -> Self {
        Model { region, s: before.clone() }
    }

    fn mask72(&self) -> [bool; 72] {
        let mut m = [false; 72];
        for (i, b) in m.iter_mut().enumerate() {
            *b = self.s.mask_bit(i);
        }
        m
    }
    fn set_mask72(&mut self, m: &[bool; 72]) {
        let mut bytes = [0u8; 9];
        for (i, b) in m.iter().enumerate() {
            if *b {
                bytes[i / 8] |= 1 << (i % 8);
            }
        }
        self.s.mask = bytes;
    }
    fn any_usable_dynamic(&self, m: &[bool; 72]) -> bool {
        (0..16).any(|i| m[i] && self.s.channels.get(i).map(|c| c.is_some()).unwrap_or(false))
    }
    /// LoRaWAN: a device never ends up with no enabled channel; when the last one is removed the
    /// default channels are enabled again.
    fn repair_no_usable(&mut self) {
        if self.region.is_fixed() {
            return;
        }
        let mut m = self.mask72();
        if !self.any_usable_dynamic(&m) {
            for b in m.iter_mut().take(n_join(self.region)) {
                *b = true;
            }
            self.set_mask72(&m);
        }
    }

    /// Is a LinkADRReq block (already applied to `cand`) unambiguously invalid?
    fn block_invalid(&self, cmds: &[&Req], cand: &[bool; 72], rfu_ctl: bool) -> Option<String> {
        let Req::LinkAdr { dr, pow, .. } = cmds[cmds.len() - 1] else { return None };
        if rfu_ctl {
            return Some("RFU ChMaskCntl".into());
        }
        if *dr != 15 && dr_is_rfu(self.region, *dr) {
            return Some(format!("RFU DataRate {dr}"));
        }
        if *pow != 15 && *pow > rr::max_tx_power_index(self.region) {
            return Some(format!("RFU TXPower {pow}"));
        }
        let res_dr = if *dr == 15 { self.s.data_rate } else { *dr };
        if self.region.is_fixed() {
            if let Some(def) = rr::dr_def(self.region, res_dr) {
                let range = if def.bw == 500 { 64..72 } else { 0..64 };
                if !range.into_iter().any(|c| cand[c]) {
                    return Some(format!("mask leaves no channel for DR{res_dr}"));
                }
            }
        } else if !self.any_usable_dynamic(cand) {
            return Some("mask leaves no defined and enabled channel".into());
        }
        None
    }

    /// Step the model over one command stream with the answers the device gave. `answers[i]` is the
    /// answer to expected answer i (None: not carried). Returns what was found.
    pub fn step(&mut self, reqs: &[Req], exp: &[ExpAns], answers: &[Option<Ans>]) -> StepReport {
        let mut rep = StepReport { acked: vec![None; reqs.len()], ..Default::default() };
        let ans_of = |req: usize| -> Option<Option<&Ans>> { exp.iter().position(|e| e.req == req).map(|p| answers.get(p).and_then(|a| a.as_ref())) };
        let mut i = 0;
        while i < reqs.len() {
            match &reqs[i] {
                Req::LinkAdr { .. } => {
                    // maximal run of adjacent LinkADRReq
                    let mut j = i;
                    while j < reqs.len() && matches!(reqs[j], Req::LinkAdr { .. }) {
                        j += 1;
                    }
                    let block: Vec<&Req> = reqs[i..j].iter().collect();
                    let mut cand = self.mask72();
                    let mut rfu_ctl = false;
                    for c in &block {
                        if let Req::LinkAdr { mask, ctl, .. } = c {
                            if !rr::apply_chmask(self.region, &mut cand, *ctl, *mask) {
                                rfu_ctl = true;
                            }
                        }
                    }
                    // the block's answers: identical copies; use the first carried one
                    let carried: Vec<&Ans> = (i..j).filter_map(|k| ans_of(k).flatten()).collect();
                    let status = carried.first().map(|a| a.status() & 0x07);
                    match status {
                        Some(0x07) => {
                            if let Some(why) = self.block_invalid(&block, &cand, rfu_ctl) {
                                rep.invalid_accepted.push(format!("LinkADRReq block {:?}: {why}", block));
                            }
                            if let Req::LinkAdr { dr, pow, .. } = block[block.len() - 1] {
                                if !self.region.is_fixed() {
                                    // only the 16 channels of a dynamic plan carry meaning
                                    let cur = self.mask72();
                                    for k in 16..72 {
                                        cand[k] = cur[k];
                                    }
                                }
                                self.set_mask72(&cand);
                                if *dr != 15 {
                                    self.s.data_rate = *dr;
                                }
                                if *pow != 15 {
                                    self.s.tx_power = rr::tx_power_dbm(self.region, *pow).map(|d| d as u8);
                                }
                            }
                            for k in i..j {
                                rep.acked[k] = Some(true);
                            }
                        }
                        Some(_) => {
                            for k in i..j {
                                rep.acked[k] = Some(false);
                            }
                        }
                        None => {
                            for k in i..j {
                                rep.unknown_effect.push(k);
                            }
                        }
                    }
                    i = j;
                    continue;
                }
                Req::RxParamSetup { rx1off, rx2dr, freq_hz } => match ans_of(i).flatten() {
                    Some(a) if a.status() & 7 == 7 => {
                        let mut why = None;
                        if *rx1off > rr::max_rx1_dr_offset(self.region) {
                            why = Some(format!("RX1DROffset {rx1off} above the regional maximum"));
                        } else if *rx2dr != 15 && dr_is_rfu(self.region, *rx2dr) {
                            why = Some(format!("RX2DataRate {rx2dr} is RFU"));
                        } else if !rr::in_band(self.region, *freq_hz) {
                            why = Some(format!("frequency {freq_hz} Hz outside the regional band"));
                        }
                        if let Some(w) = why {
                            rep.invalid_accepted.push(format!("RXParamSetupReq: {w}"));
                        }
                        self.s.rx1_dr_offset = *rx1off;
                        // RX2DataRate "follows the same convention as LinkADRReq": 15 may be read as
                        // "keep the current value" (ambiguous, so not on the must-reject list)
                        if *rx2dr != 15 {
                            self.s.rx2_data_rate = Some(*rx2dr);
                        }
                        self.s.rx2_frequency = Some(*freq_hz);
                        rep.acked[i] = Some(true);
                    }
                    Some(_) => rep.acked[i] = Some(false),
                    None => rep.unknown_effect.push(i),
                },
                Req::RxTimingSetup { del } => match ans_of(i).flatten() {
                    Some(_) => {
                        self.s.rx1_delay = if *del < 2 { 1000 } else { *del as u32 * 1000 };
                        rep.acked[i] = Some(true);
                    }
                    None => rep.unknown_effect.push(i),
                },
                Req::NewChannel { idx, freq_hz, drrange } if !self.region.is_fixed() => match ans_of(i).flatten() {
                    Some(a) if a.status() & 3 == 3 => {
                        let mut why = None;
                        let min = drrange & 0x0f;
                        let max = drrange >> 4;
                        if (*idx as usize) < n_join(self.region) {
                            why = Some(format!("index {idx} is a default channel"));
                        } else if *idx >= 16 {
                            why = Some(format!("index {idx} beyond the channel plan"));
                        } else if *freq_hz != 0 && !rr::in_band(self.region, *freq_hz) {
                            why = Some(format!("frequency {freq_hz} Hz outside the regional band"));
                        } else if *freq_hz != 0 && (min > max || (min..=max).any(|d| d == 15 || dr_is_rfu(self.region, d))) {
                            why = Some(format!("DrRange {drrange:#04x} inverted or containing an RFU rate"));
                        }
                        if let Some(w) = why {
                            rep.invalid_accepted.push(format!("NewChannelReq: {w}"));
                        }
                        if (*idx as usize) < 16 {
                            let mut m = self.mask72();
                            if *freq_hz == 0 {
                                self.s.channels[*idx as usize] = None;
                                m[*idx as usize] = false;
                            } else {
                                self.s.channels[*idx as usize] = Some(SnapChannel { freq: *freq_hz, dl_freq: None, dr_range: *drrange });
                                m[*idx as usize] = true;
                            }
                            self.set_mask72(&m);
                            self.repair_no_usable();
                        }
                        rep.acked[i] = Some(true);
                    }
                    Some(_) => rep.acked[i] = Some(false),
                    None => rep.unknown_effect.push(i),
                },
                Req::DlChannel { idx, freq_hz } if !self.region.is_fixed() => match ans_of(i).flatten() {
                    Some(a) if a.status() & 3 == 3 => {
                        let defined = (*idx as usize) < 16 && self.s.channels[*idx as usize].is_some();
                        if !rr::in_band(self.region, *freq_hz) {
                            rep.invalid_accepted.push(format!("DlChannelReq: frequency {freq_hz} Hz outside the regional band"));
                        } else if !defined {
                            rep.invalid_accepted.push(format!("DlChannelReq: channel {idx} is not defined"));
                        }
                        if defined {
                            let c = self.s.channels[*idx as usize].as_mut().unwrap();
                            c.dl_freq = if *freq_hz == c.freq { None } else { Some(*freq_hz) };
                        }
                        rep.acked[i] = Some(true);
                    }
                    Some(_) => rep.acked[i] = Some(false),
                    None => rep.unknown_effect.push(i),
                },
                _ => {}
            }
            i += 1;
        }
        rep
    }
}

/// Compare the configuration + plan part of two snapshots; returns the names of differing fields.
pub fn config_diff(region: RegionId, want: &Snap, got: &Snap) -> Vec<String> {
    let mut d = Vec::new();
    if want.data_rate != got.data_rate {
        d.push(format!("data_rate: model {} device {}", want.data_rate, got.data_rate));
    }
    // TX power: the model holds MaxEIRP - 2*TXPower; US915 additionally caps conducted power at 21 dBm
    let tp_ok = want.tx_power == got.tx_power || (region == RegionId::US915 && got.tx_power == want.tx_power.map(|p| p.min(21)));
    if !tp_ok {
        d.push(format!("tx_power: model {:?} device {:?}", want.tx_power, got.tx_power));
    }
    if want.rx1_dr_offset != got.rx1_dr_offset {
        d.push(format!("rx1_dr_offset: model {} device {}", want.rx1_dr_offset, got.rx1_dr_offset));
    }
    if want.rx2_data_rate != got.rx2_data_rate {
        d.push(format!("rx2_data_rate: model {:?} device {:?}", want.rx2_data_rate, got.rx2_data_rate));
    }
    if want.rx2_frequency != got.rx2_frequency {
        d.push(format!("rx2_frequency: model {:?} device {:?}", want.rx2_frequency, got.rx2_frequency));
    }
    if want.rx1_delay != got.rx1_delay {
        d.push(format!("rx1_delay: model {} device {}", want.rx1_delay, got.rx1_delay));
    }
    if want.channels != got.channels {
        for i in 0..16 {
            if want.channels.get(i) != got.channels.get(i) {
                d.push(format!("channel[{i}]: model {:?} device {:?}", want.channels.get(i).and_then(|c| c.as_ref()), got.channels.get(i).and_then(|c| c.as_ref())));
            }
        }
    }
    // masks: all 72 channels in fixed plans, defined channels only in dynamic plans
    let n = if region.is_fixed() { 72 } else { 16 };
    let mut differing = Vec::new();
    for c in 0..n {
        let relevant = region.is_fixed() || want.channels.get(c).map(|x| x.is_some()).unwrap_or(false) || got.channels.get(c).map(|x| x.is_some()).unwrap_or(false);
        if relevant && want.mask_bit(c) != got.mask_bit(c) {
            differing.push(c);
        }
    }
    if !differing.is_empty() {
        let hexmask = |s: &Snap| s.mask.iter().map(|b| format!("{b:02x}")).collect::<Vec<_>>().join("");
        d.push(format!("mask differs on channels {:?}: model {} device {}", differing, hexmask(want), hexmask(got)));
    }
    d
}
