//! Regional parameters written from RP002-1.0.3 (tables encoded as the RP002
//! formulas, not copied from /repo). Where RP002 revisions disagree, or the
//! table names a data rate this stack does not implement (FSK, LR-FHSS), the
//! entry is *ambiguous* and any region-defined LoRa data rate is accepted.

use crate::script::RegionId;

#[derive(Clone, Copy, Debug, PartialEq, Eq)]
pub struct DrDef {
    pub sf: u8,
    /// bandwidth in kHz (125, 250, 500)
    pub bw: u16,
    /// maximum MACPayload size (M), no repeater, no dwell-time limit
    pub max_mac: u8,
}

const fn d(sf: u8, bw: u16, max_mac: u8) -> Option<DrDef> {
    Some(DrDef { sf, bw, max_mac })
}

/// LoRa data rates of the region that this stack implements (index = DR).
pub fn datarates(r: RegionId) -> [Option<DrDef>; 16] {
    let n = None;
    match r {
        RegionId::EU868 | RegionId::EU433 => {
            // DR6 (SF7/250) exists in RP002; the stack under test implements DR0..5 for EU868 and
            // DR0..6 for EU433. `defined` is about RP002; see `implemented_hint` where it matters.
            [d(12, 125, 59), d(11, 125, 59), d(10, 125, 59), d(9, 125, 123), d(8, 125, 250), d(7, 125, 250), d(7, 250, 250), n, n, n, n, n, n, n, n, n]
        }
        RegionId::IN865 => [d(12, 125, 59), d(11, 125, 59), d(10, 125, 59), d(9, 125, 123), d(8, 125, 250), d(7, 125, 250), n, n, n, n, n, n, n, n, n, n],
        RegionId::AS923_1 | RegionId::AS923_2 | RegionId::AS923_3 | RegionId::AS923_4 => {
            [d(12, 125, 59), d(11, 125, 59), d(10, 125, 123), d(9, 125, 123), d(8, 125, 250), d(7, 125, 250), d(7, 250, 250), n, n, n, n, n, n, n, n, n]
        }
        RegionId::US915 => [
            d(10, 125, 19),
            d(9, 125, 61),
            d(8, 125, 133),
            d(7, 125, 250),
            d(8, 500, 250),
            n,
            n,
            n,
            d(12, 500, 61),
            d(11, 500, 137),
            d(10, 500, 250),
            d(9, 500, 250),
            d(8, 500, 250),
            d(7, 500, 250),
            n,
            n,
        ],
        RegionId::AU915 => [
            d(12, 125, 59),
            d(11, 125, 59),
            d(10, 125, 59),
            d(9, 125, 123),
            d(8, 125, 250),
            d(7, 125, 250),
            d(8, 500, 250),
            n,
            d(12, 500, 61),
            d(11, 500, 137),
            d(10, 500, 250),
            d(9, 500, 250),
            d(8, 500, 250),
            d(7, 500, 250),
            n,
            n,
        ],
    }
}

/// Data rates an application may select for uplinks (LoRa rates the stack under test implements).
pub fn uplink_drs(r: RegionId) -> Vec<u8> {
    match r {
        RegionId::EU868 | RegionId::IN865 => (0..=5).collect(),
        RegionId::EU433 | RegionId::AS923_1 | RegionId::AS923_2 | RegionId::AS923_3 | RegionId::AS923_4 => (0..=6).collect(),
        RegionId::US915 => (0..=4).collect(),
        RegionId::AU915 => (0..=6).collect(),
    }
}

pub fn dr_def(r: RegionId, dr: u8) -> Option<DrDef> {
    datarates(r).get(dr as usize).copied().flatten()
}

/// All data-rate indices of the region with this (sf, bw).
pub fn drs_matching(r: RegionId, sf: u8, bw_khz: u16) -> Vec<u8> {
    datarates(r)
        .iter()
        .enumerate()
        .filter_map(|(i, x)| x.filter(|x| x.sf == sf && x.bw == bw_khz).map(|_| i as u8))
        .collect()
}

/// Maximum MACPayload for a window opened with (sf, bw); None if the region defines no such rate.
pub fn max_mac_for(r: RegionId, sf: u8, bw_khz: u16) -> Option<u8> {
    datarates(r).iter().flatten().find(|x| x.sf == sf && x.bw == bw_khz).map(|x| x.max_mac)
}

/// Regional band limits (Hz, inclusive).
pub fn band(r: RegionId) -> (u32, u32) {
    match r {
        RegionId::EU868 => (863_000_000, 870_000_000),
        RegionId::EU433 => (433_050_000, 434_790_000),
        RegionId::IN865 => (865_000_000, 867_000_000),
        RegionId::AS923_1 | RegionId::AS923_2 | RegionId::AS923_3 => (915_000_000, 928_000_000),
        RegionId::AS923_4 => (917_000_000, 920_000_000),
        RegionId::US915 => (902_000_000, 928_000_000),
        RegionId::AU915 => (915_000_000, 928_000_000),
    }
}

pub fn in_band(r: RegionId, f: u32) -> bool {
    let (lo, hi) = band(r);
    f >= lo && f <= hi
}

pub fn as923_offset(r: RegionId) -> i64 {
    match r {
        RegionId::AS923_1 => 0,
        RegionId::AS923_2 => -1_800_000,
        RegionId::AS923_3 => -6_600_000,
        RegionId::AS923_4 => -5_900_000,
        _ => 0,
    }
}

/// Default (join) channels of dynamic-plan regions.
pub fn default_channels(r: RegionId) -> Vec<u32> {
    match r {
        RegionId::EU868 => vec![868_100_000, 868_300_000, 868_500_000],
        RegionId::EU433 => vec![433_175_000, 433_375_000, 433_575_000],
        RegionId::IN865 => vec![865_062_500, 865_402_500, 865_985_000],
        RegionId::AS923_1 | RegionId::AS923_2 | RegionId::AS923_3 | RegionId::AS923_4 => {
            let o = as923_offset(r);
            vec![(923_200_000 + o) as u32, (923_400_000 + o) as u32]
        }
        _ => vec![],
    }
}

/// Fixed-plan uplink channel frequency.
pub fn fixed_uplink(r: RegionId, ch: u8) -> u32 {
    let ch = ch as u32;
    match r {
        RegionId::US915 => {
            if ch < 64 {
                902_300_000 + 200_000 * ch
            } else {
                903_000_000 + 1_600_000 * (ch - 64)
            }
        }
        RegionId::AU915 => {
            if ch < 64 {
                915_200_000 + 200_000 * ch
            } else {
                915_900_000 + 1_600_000 * (ch - 64)
            }
        }
        _ => 0,
    }
}

/// Fixed-plan uplink channel index for a frequency.
pub fn fixed_channel_of(r: RegionId, f: u32) -> Option<u8> {
    (0..72u8).find(|c| fixed_uplink(r, *c) == f)
}

/// Fixed-plan RX1 downlink frequency for an uplink channel.
pub fn fixed_downlink(_r: RegionId, ch: u8) -> u32 {
    923_300_000 + 600_000 * (ch as u32 % 8)
}

pub fn rx2_default(r: RegionId) -> (u32, u8) {
    match r {
        RegionId::EU868 => (869_525_000, 0),
        RegionId::EU433 => (434_665_000, 0),
        RegionId::IN865 => (866_550_000, 2),
        RegionId::AS923_1 | RegionId::AS923_2 | RegionId::AS923_3 | RegionId::AS923_4 => ((923_200_000 + as923_offset(r)) as u32, 2),
        RegionId::US915 | RegionId::AU915 => (923_300_000, 8),
    }
}

pub fn max_rx1_dr_offset(r: RegionId) -> u8 {
    match r {
        RegionId::EU868 | RegionId::EU433 => 5,
        RegionId::IN865 | RegionId::AS923_1 | RegionId::AS923_2 | RegionId::AS923_3 | RegionId::AS923_4 => 7,
        RegionId::US915 => 3,
        RegionId::AU915 => 5,
    }
}

pub fn max_eirp(r: RegionId) -> i32 {
    match r {
        RegionId::EU868 => 16,
        // RP002 gives 12.15 dBm for EU433; the integer part is used as the bound
        RegionId::EU433 => 12,
        RegionId::IN865 => 30,
        RegionId::AS923_1 | RegionId::AS923_2 | RegionId::AS923_3 | RegionId::AS923_4 => 16,
        RegionId::US915 | RegionId::AU915 => 30,
    }
}

/// Highest defined TXPower index.
pub fn max_tx_power_index(r: RegionId) -> u8 {
    match r {
        RegionId::EU868 => 7,
        RegionId::EU433 => 5,
        RegionId::IN865 => 10,
        RegionId::AS923_1 | RegionId::AS923_2 | RegionId::AS923_3 | RegionId::AS923_4 => 7,
        RegionId::US915 | RegionId::AU915 => 14,
    }
}

/// EIRP (dBm) commanded by TXPower index `p` (MaxEIRP - 2*p), None when RFU.
pub fn tx_power_dbm(r: RegionId, p: u8) -> Option<i32> {
    if p <= max_tx_power_index(r) {
        Some(max_eirp(r) - 2 * p as i32)
    } else {
        None
    }
}

#[derive(Clone, Debug, PartialEq, Eq)]
pub enum Rx1Dr {
    Exact(u8),
    /// RP002 revisions disagree or the entry is a non-LoRa rate: any region-defined LoRa DR is accepted
    Ambiguous,
}

/// RX1 data rate for (uplink DR, RX1DROffset) by the RP002 formulas.
pub fn rx1_dr(r: RegionId, up: u8, off: u8) -> Rx1Dr {
    match r {
        RegionId::EU868 | RegionId::EU433 => {
            if up > 7 || off > 5 {
                return Rx1Dr::Ambiguous;
            }
            let v = up.saturating_sub(off);
            if dr_def(r, v).is_some() {
                Rx1Dr::Exact(v)
            } else {
                Rx1Dr::Ambiguous
            }
        }
        RegionId::IN865 | RegionId::AS923_1 | RegionId::AS923_2 | RegionId::AS923_3 | RegionId::AS923_4 => {
            if up > 7 || off > 7 {
                return Rx1Dr::Ambiguous;
            }
            let eff: i32 = match off {
                6 => -1,
                7 => -2,
                o => o as i32,
            };
            let v = (up as i32 - eff).max(0);
            // RP002-1.0.x caps at DR5; the tables of later revisions go beyond for some entries.
            if v > 5 || up > 5 {
                // uplink rates above DR5 and results above DR5 differ between revisions
                if r == RegionId::IN865 && up <= 5 && v > 5 {
                    // IN865 table: DR4/off7 -> DR5 (cap), DR5/off6 -> DR5 (cap), DR5/off7 -> DR7 (FSK: ambiguous)
                    if up == 5 && off == 7 {
                        return Rx1Dr::Ambiguous;
                    }
                    return Rx1Dr::Exact(5);
                }
                return Rx1Dr::Ambiguous;
            }
            Rx1Dr::Exact(v as u8)
        }
        RegionId::US915 => {
            if up > 4 || off > 3 {
                return Rx1Dr::Ambiguous;
            }
            Rx1Dr::Exact((10 + up as i32 - off as i32).clamp(8, 13) as u8)
        }
        RegionId::AU915 => {
            if up > 6 || off > 5 {
                return Rx1Dr::Ambiguous;
            }
            Rx1Dr::Exact((8 + up as i32 - off as i32).clamp(8, 13) as u8)
        }
    }
}

/// Join data rates a fixed-plan region mandates for a join channel (set: revisions differ for AU915 125 kHz).
pub fn fixed_join_drs(r: RegionId, ch: u8) -> Vec<u8> {
    match (r, ch < 64) {
        (RegionId::US915, true) => vec![0],
        (RegionId::US915, false) => vec![4],
        // RP002: DR2 (1.0.2rB and earlier: DR0) on 125 kHz channels, DR6 on 500 kHz channels
        (RegionId::AU915, true) => vec![2, 0],
        (RegionId::AU915, false) => vec![6],
        _ => vec![],
    }
}

/// ChMaskCntl values RP002 marks RFU for the region.
pub fn chmaskcntl_rfu(r: RegionId, ctl: u8) -> bool {
    if r.is_fixed() {
        ctl > 7
    } else {
        !(ctl == 0 || ctl == 6)
    }
}

/// Apply one LinkADRReq (ChMaskCntl, ChMask) to a 72-bit mask per RP002. Returns false for RFU values
/// (mask untouched).
pub fn apply_chmask(r: RegionId, mask: &mut [bool; 72], ctl: u8, chmask: u16) -> bool {
    if chmaskcntl_rfu(r, ctl) {
        return false;
    }
    let bit = |i: usize| (chmask >> i) & 1 == 1;
    if r.is_fixed() {
        match ctl {
            0..=3 => {
                for i in 0..16 {
                    mask[ctl as usize * 16 + i] = bit(i);
                }
            }
            4 => {
                for i in 0..8 {
                    mask[64 + i] = bit(i);
                }
            }
            5 => {
                for b in 0..8 {
                    for i in 0..8 {
                        mask[b * 8 + i] = bit(b);
                    }
                    mask[64 + b] = bit(b);
                }
            }
            6 | 7 => {
                for m in mask.iter_mut().take(64) {
                    *m = ctl == 6;
                }
                for i in 0..8 {
                    mask[64 + i] = bit(i);
                }
            }
            _ => return false,
        }
    } else {
        match ctl {
            0 => {
                for i in 0..16 {
                    mask[i] = bit(i);
                }
            }
            6 => {
                // all defined channels ON: the caller compares on defined channels only
                for m in mask.iter_mut().take(16) {
                    *m = true;
                }
            }
            _ => return false,
        }
    }
    true
}

pub fn self_test() -> Result<(), String> {
    // spot checks against RP002 tables
    if rx1_dr(RegionId::US915, 0, 3) != Rx1Dr::Exact(8) || rx1_dr(RegionId::US915, 4, 0) != Rx1Dr::Exact(13) || rx1_dr(RegionId::US915, 3, 1) != Rx1Dr::Exact(12) {
        return Err("US915 RX1 table".into());
    }
    if rx1_dr(RegionId::AU915, 6, 5) != Rx1Dr::Exact(9) || rx1_dr(RegionId::AU915, 0, 5) != Rx1Dr::Exact(8) || rx1_dr(RegionId::AU915, 2, 0) != Rx1Dr::Exact(10) {
        return Err("AU915 RX1 table".into());
    }
    if rx1_dr(RegionId::EU868, 5, 5) != Rx1Dr::Exact(0) || rx1_dr(RegionId::EU868, 3, 1) != Rx1Dr::Exact(2) {
        return Err("EU868 RX1 table".into());
    }
    if rx1_dr(RegionId::AS923_1, 0, 7) != Rx1Dr::Exact(2) || rx1_dr(RegionId::AS923_1, 2, 6) != Rx1Dr::Exact(3) || rx1_dr(RegionId::IN865, 4, 7) != Rx1Dr::Exact(5) {
        return Err("AS923/IN865 RX1 table".into());
    }
    if fixed_uplink(RegionId::US915, 63) != 914_900_000 || fixed_uplink(RegionId::US915, 71) != 914_200_000 {
        return Err("US915 uplink grid".into());
    }
    if fixed_uplink(RegionId::AU915, 63) != 927_800_000 || fixed_uplink(RegionId::AU915, 71) != 927_100_000 {
        return Err("AU915 uplink grid".into());
    }
    if fixed_downlink(RegionId::US915, 71) != 927_500_000 {
        return Err("downlink grid".into());
    }
    if rx2_default(RegionId::AS923_3).0 != 916_600_000 || rx2_default(RegionId::AS923_2).0 != 921_400_000 || rx2_default(RegionId::AS923_4).0 != 917_300_000 {
        return Err("AS923 RX2".into());
    }
    let mut m = [false; 72];
    if !apply_chmask(RegionId::US915, &mut m, 5, 0x0002) || !m[8] || !m[15] || !m[65] || m[0] || m[64] {
        return Err("ChMaskCntl 5".into());
    }
    Ok(())
}
