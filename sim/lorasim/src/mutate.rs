//! Structural mutations of a serialised session document (C20 part iii).

use crate::script::JsonMutation;
use serde_json::Value;

fn paths(v: &Value, prefix: Vec<String>, out: &mut Vec<Vec<String>>) {
    match v {
        Value::Object(m) => {
            for (k, x) in m {
                let mut p = prefix.clone();
                p.push(k.clone());
                out.push(p.clone());
                paths(x, p, out);
            }
        }
        Value::Array(a) => {
            if let Some(x) = a.first() {
                let mut p = prefix.clone();
                p.push("0".into());
                out.push(p.clone());
                paths(x, p, out);
            }
        }
        _ => {}
    }
}

fn get_mut<'a>(v: &'a mut Value, path: &[String]) -> Option<&'a mut Value> {
    let mut cur = v;
    for k in path {
        cur = match cur {
            Value::Object(m) => m.get_mut(k)?,
            Value::Array(a) => a.get_mut(k.parse::<usize>().ok()?)?,
            _ => return None,
        };
    }
    Some(cur)
}

fn remove(v: &mut Value, path: &[String]) {
    if path.is_empty() {
        return;
    }
    if let Some(parent) = get_mut(v, &path[..path.len() - 1]) {
        match parent {
            Value::Object(m) => {
                m.remove(&path[path.len() - 1]);
            }
            Value::Array(a) => {
                if !a.is_empty() {
                    a.remove(0);
                }
            }
            _ => {}
        }
    }
}

/// Apply mutation `m` to the JSON text. `arg` selects the target and the replacement.
pub fn mutate_json(json: &str, m: &JsonMutation) -> String {
    let Ok(mut v) = serde_json::from_str::<Value>(json) else { return json.to_string() };
    let mut all = Vec::new();
    paths(&v, vec![], &mut all);
    if all.is_empty() {
        return json.to_string();
    }
    let target = all[(m.arg as usize) % all.len()].clone();
    let sel = (m.arg >> 16) as usize;
    match m.kind % 12 {
        0 => remove(&mut v, &target),
        1 => {
            // retype
            let repl = [Value::Null, Value::Bool(true), Value::from(0), Value::from(-1), Value::from(1.5), Value::from("x"), Value::Array(vec![]), Value::Object(Default::default()), Value::from(u64::MAX), Value::from(4294967296u64)];
            if let Some(t) = get_mut(&mut v, &target) {
                *t = repl[sel % repl.len()].clone();
            }
        }
        2 => {
            // pending_len: every value 0..255
            if let Some(t) = get_mut(&mut v, &["uplink".to_string(), "pending_len".to_string()]) {
                *t = Value::from((m.arg % 256) as u64);
            }
        }
        3 => {
            // arrays of wrong length
            if let Some(t) = get_mut(&mut v, &target) {
                let arr = if let Value::Array(a) = t { Some(a) } else { None };
                if let Some(a) = arr {
                    match sel % 4 {
                        0 => {
                            a.pop();
                        }
                        1 => a.push(Value::from(7)),
                        2 => a.clear(),
                        _ => {
                            for _ in 0..300 {
                                a.push(Value::from(1));
                            }
                        }
                    }
                } else if let Some(t) = get_mut(&mut v, &["uplink".to_string(), "pending_data".to_string()]) {
                    if let Value::Array(a) = t {
                        a.pop();
                    }
                }
            }
        }
        4 => {
            // out-of-range integers in numeric leaves
            let vals = [Value::from(256), Value::from(65536), Value::from(-1), Value::from(u64::MAX), Value::from(4294967295u64), Value::from(4294967296u64), Value::from(255)];
            if let Some(t) = get_mut(&mut v, &target) {
                if t.is_number() {
                    *t = vals[sel % vals.len()].clone();
                } else if let Value::Array(a) = t {
                    if let Some(x) = a.first_mut() {
                        *x = vals[sel % vals.len()].clone();
                    }
                }
            }
        }
        5 => {
            // counters at their limits, full pending buffer with arbitrary bytes
            if let Some(t) = get_mut(&mut v, &["fcnt_up".to_string()]) {
                *t = Value::from([0u64, 0xFFFF, 0xFFFF_FFFE, 0xFFFF_FFFF][sel % 4]);
            }
            if let Some(t) = get_mut(&mut v, &["fcnt_down".to_string()]) {
                *t = [Value::Null, Value::from(0), Value::from(0xFFFF_FFFFu64), Value::from(0xFFFFu64)][(sel / 4) % 4].clone();
            }
            if let Some(t) = get_mut(&mut v, &["uplink".to_string(), "pending_len".to_string()]) {
                *t = Value::from(15);
            }
            if let Some(t) = get_mut(&mut v, &["uplink".to_string(), "pending_data".to_string()]) {
                *t = Value::Array((0..15u64).map(|i| Value::from((m.arg.wrapping_mul(31).wrapping_add(i * 17) % 256) as u64)).collect());
            }
        }
        6 => {
            // duplicate a field at the text level
            let s = serde_json::to_string(&v).unwrap_or_default();
            return s.replacen('{', "{\"fcnt_up\":1,", 1);
        }
        7 => {
            // unknown extra field / renamed field
            if let Value::Object(mm) = &mut v {
                mm.insert("extra".into(), Value::from(1));
                if sel % 2 == 0 {
                    if let Some(x) = mm.remove("fcnt_up") {
                        mm.insert("fcntup".into(), x);
                    }
                }
            }
        }
        8 => {
            // truncate the text
            let s = serde_json::to_string(&v).unwrap_or_default();
            let n = (m.arg as usize) % (s.len().max(1));
            return s[..n].to_string();
        }
        10 | 11 => {
            // a struct given as the sequence of its field values (what a format without field names looks like, and
            // what serde's derived visitors accept): the fields in the order of the document's text (the declaration
            // order), kind 11 with one numeric member pushed out of its range on the way
            let obj_path: Vec<String> = match sel % 3 {
                0 => vec!["uplink".to_string()],
                1 => vec![],
                _ => {
                    let mut p = target.clone();
                    while !p.is_empty() && !matches!(get_mut(&mut v, &p), Some(Value::Object(_))) {
                        p.pop();
                    }
                    p
                }
            };
            if let Some(Value::Object(mm)) = get_mut(&mut v, &obj_path) {
                let mut keys: Vec<(usize, String)> = mm.keys().map(|k| (json.find(&format!("\"{k}\":")).unwrap_or(usize::MAX), k.clone())).collect();
                keys.sort();
                let mut vals: Vec<Value> = keys.iter().map(|(_, k)| mm.get(k).cloned().unwrap_or(Value::Null)).collect();
                if m.kind % 12 == 11 {
                    let nums: Vec<usize> = vals.iter().enumerate().filter(|(_, x)| x.is_number()).map(|(i, _)| i).collect();
                    if !nums.is_empty() {
                        let i = nums[(sel / 3) % nums.len()];
                        vals[i] = Value::from(((m.arg >> 8) % 256) as u64);
                    }
                }
                if let Some(t) = get_mut(&mut v, &obj_path) {
                    *t = Value::Array(vals);
                }
            }
        }
        _ => {
            // adr counter and flags
            if let Some(t) = get_mut(&mut v, &["adr_ack_cnt".to_string()]) {
                *t = Value::from([63u64, 64, 95, 96, 0xFFFF_FFFF][sel % 5]);
            }
            if let Some(t) = get_mut(&mut v, &["uplink".to_string(), "confirmed".to_string()]) {
                *t = Value::Bool(sel % 2 == 0);
            }
        }
    }
    serde_json::to_string(&v).unwrap_or_else(|_| json.to_string())
}
