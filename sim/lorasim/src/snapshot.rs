//! Harness-side copy of the H1 snapshot (`Device::verif_snapshot()`), comparable and hashable.

use lorawan_device::verif::VerifSnapshot;
use simcore::Fnv;

#[derive(Clone, Debug, PartialEq, Eq)]
pub struct SnapChannel {
    pub freq: u32,
    pub dl_freq: Option<u32>,
    pub dr_range: u8,
}

#[derive(Clone, Debug, PartialEq, Eq)]
pub struct SnapSession {
    pub devaddr: u32,
    pub fcnt_up: u32,
    pub fcnt_down: Option<u32>,
    pub adr_ack_cnt: u32,
    pub confirmed: bool,
    pub owed_ack: bool,
    pub pending: Vec<u8>,
}

#[derive(Clone, Debug, PartialEq, Eq)]
pub struct Snap {
    pub data_rate: u8,
    pub tx_power: Option<u8>,
    pub rx1_dr_offset: u8,
    pub rx2_data_rate: Option<u8>,
    pub rx2_frequency: Option<u32>,
    pub rx1_delay: u32,
    pub adr_enabled: bool,
    pub fixed: bool,
    pub mask: [u8; 9],
    pub channels: Vec<Option<SnapChannel>>,
    /// (max_retries, num_retries, preferred_subband, previous_channel, available, available_previous)
    pub join_bias: (usize, usize, Option<u8>, u8, [u8; 9], Option<u8>),
    pub join_state: u8,
    pub session: Option<SnapSession>,
}

impl Snap {
    pub fn from_hook(v: &VerifSnapshot) -> Self {
        Snap {
            data_rate: v.data_rate,
            tx_power: v.tx_power,
            rx1_dr_offset: v.rx1_dr_offset,
            rx2_data_rate: v.rx2_data_rate,
            rx2_frequency: v.rx2_frequency,
            rx1_delay: v.rx1_delay,
            adr_enabled: v.adr_enabled,
            fixed: v.plan.fixed,
            mask: v.plan.channel_mask,
            channels: v.plan.channels.iter().map(|c| c.map(|c| SnapChannel { freq: c.frequency, dl_freq: c.dl_frequency, dr_range: c.dr_range })).collect(),
            join_bias: (
                v.plan.join_bias.max_retries,
                v.plan.join_bias.num_retries,
                v.plan.join_bias.preferred_subband,
                v.plan.join_bias.previous_channel,
                v.plan.join_bias.available,
                v.plan.join_bias.available_previous,
            ),
            join_state: v.join_state,
            session: v.session.map(|s| SnapSession {
                devaddr: s.devaddr,
                fcnt_up: s.fcnt_up,
                fcnt_down: s.fcnt_down,
                adr_ack_cnt: s.adr_ack_cnt,
                confirmed: s.confirmed,
                owed_ack: s.owed_ack,
                pending: s.pending[..s.pending_len as usize].to_vec(),
            }),
        }
    }

    pub fn mask_bit(&self, ch: usize) -> bool {
        ch < 72 && self.mask[ch / 8] & (1 << (ch % 8)) != 0
    }

    /// Hash of the configuration + plan part (not counters): "distinct states" measure.
    pub fn config_hash(&self) -> u64 {
        let mut h = Fnv::new();
        h.u8(self.data_rate);
        h.u8(self.tx_power.map(|p| p + 1).unwrap_or(0));
        h.u8(self.rx1_dr_offset);
        h.u8(self.rx2_data_rate.map(|p| p + 1).unwrap_or(0));
        h.u64(self.rx2_frequency.unwrap_or(0) as u64);
        h.u64(self.rx1_delay as u64);
        h.u8(self.adr_enabled as u8);
        h.bytes(&self.mask);
        for c in &self.channels {
            match c {
                None => h.u8(0),
                Some(c) => {
                    h.u64(c.freq as u64);
                    h.u64(c.dl_freq.unwrap_or(0) as u64);
                    h.u8(c.dr_range);
                }
            }
        }
        h.u64(self.join_bias.0 as u64);
        h.u64(self.join_bias.1 as u64);
        h.u8(self.join_bias.2.unwrap_or(0));
        h.u8(self.join_state);
        if let Some(s) = &self.session {
            h.bytes(&s.pending);
            h.u8(s.owed_ack as u8);
        }
        h.finish()
    }

    /// Human readable differences (field names) between two snapshots.
    pub fn diff(&self, o: &Snap) -> Vec<String> {
        let mut d = Vec::new();
        macro_rules! f {
            ($name:ident) => {
                if self.$name != o.$name {
                    d.push(format!("{}: {:?} vs {:?}", stringify!($name), self.$name, o.$name));
                }
            };
        }
        f!(data_rate);
        f!(tx_power);
        f!(rx1_dr_offset);
        f!(rx2_data_rate);
        f!(rx2_frequency);
        f!(rx1_delay);
        f!(adr_enabled);
        f!(mask);
        f!(channels);
        f!(join_bias);
        f!(join_state);
        f!(session);
        d
    }
}
