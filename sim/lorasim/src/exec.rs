//! Executes a script against a real device inside the simulated world and
//! hands every finished operation to the property's monitor.

use crate::dut::*;
use crate::script::*;
use crate::world::*;
use simcore::{Fnv, RunStats, Violation};

#[derive(Clone, Debug)]
pub struct OpRecord {
    pub idx: usize,
    pub op: Op,
    pub result: OpResult,
    /// range of `Env::trace` produced by this op
    pub trace_lo: usize,
    pub trace_hi: usize,
    /// range of `Env::delivered` produced by this op
    pub del_lo: usize,
    pub del_hi: usize,
    /// downlinks the application took after the op
    pub downlinks: Vec<(u8, Vec<u8>)>,
    pub fcnt_up_after: Option<u32>,
    pub fcnt_down_after: Option<Option<u32>>,
    pub dr_after: u8,
    pub adr_after: bool,
    pub payload: Vec<u8>,
    /// was the reference session present when the op started
    pub ref_joined_before: bool,
    /// H1 snapshots around the op
    pub snap_before: Option<crate::snapshot::Snap>,
    pub snap_after: Option<crate::snapshot::Snap>,
}

pub struct World {
    pub env: EnvRef,
    pub dut: Box<dyn Dut>,
    pub records: Vec<OpRecord>,
}

/// Deterministic application payload for op `idx` (unique per op so that two uplinks are "different").
pub fn app_payload(idx: usize, len: u8) -> Vec<u8> {
    (0..len as usize).map(|i| (idx as u8).wrapping_mul(31).wrapping_add((i as u8).wrapping_mul(7)).wrapping_add(1)).collect()
}

pub trait Monitor {
    /// Called after every operation. Return a violation to stop the run.
    fn after_op(&mut self, w: &mut World, rec: &OpRecord, stats: &mut RunStats) -> Option<Violation>;
    /// Called once after the last operation (faults have stopped).
    fn at_end(&mut self, _w: &mut World, _stats: &mut RunStats) -> Option<Violation> {
        None
    }
}

impl World {
    pub fn new(cfg: &WorldCfg) -> Self {
        let env = Env::new(cfg);
        let dut = make_dut(&env);
        World { env, dut, records: Vec::new() }
    }

    /// Execute one operation and record its observable outcome.
    pub fn step(&mut self, idx: usize, op: &Op) -> OpRecord {
        let (trace_lo, del_lo, ref_joined_before) = {
            let e = self.env.borrow();
            (e.trace.len(), e.delivered.len(), e.refs.is_some())
        };
        let mut payload = Vec::new();
        let snap_before = self.dut.snapshot();
        let mut pre_downlinks: Vec<(u8, Vec<u8>)> = Vec::new();
        let result = match op {
            Op::Join(txn) => {
                self.env.borrow_mut().begin_op(idx, Some(txn), None, "join(OTAA)".into());
                if txn.alt_identity {
                    let mut e = self.env.borrow_mut();
                    e.id.toggle_alt();
                    e.push(crate::world::Ev::Note("the application provisions the other set of OTAA credentials".into()));
                    e.bump("probe.join-with-other-credentials");
                }
                self.dut.join()
            }
            Op::Send { port, len, confirmed, txn } => {
                // len 255: the largest application payload of the current data rate (M - 8)
                let len = if *len == 255 {
                    let region = self.env.borrow().cfg.region;
                    snap_before.as_ref().and_then(|s| crate::refregion::dr_def(region, s.data_rate)).map(|d| d.max_mac - 8).unwrap_or(11)
                } else {
                    *len
                };
                let len = &len;
                payload = app_payload(idx, *len);
                self.env.borrow_mut().begin_op(idx, Some(txn), None, format!("send(port={port}, len={len}, confirmed={confirmed})"));
                self.dut.send(&payload, *port, *confirmed)
            }
            Op::SetDr(dr) => {
                // documented domain: an uplink data rate of the region for which the current channel
                // mask leaves a channel (the application cannot be asked to select an unusable rate)
                let region = self.env.borrow().cfg.region;
                let mut usable = crate::refregion::uplink_drs(region).contains(dr);
                if usable && region.is_fixed() {
                    if let (Some(s), Some(def)) = (self.dut.snapshot(), crate::refregion::dr_def(region, *dr)) {
                        let range = if def.bw == 500 { 64..72 } else { 0..64 };
                        usable = range.into_iter().any(|c| s.mask_bit(c));
                    }
                }
                if usable {
                    self.env.borrow_mut().begin_op(idx, None, None, format!("set_datarate({dr})"));
                    self.dut.set_dr(*dr)
                } else {
                    self.env.borrow_mut().begin_op(idx, None, None, format!("set_datarate({dr}) skipped: outside the documented domain"));
                    OpResult::Done
                }
            }
            Op::SetAdr(on) => {
                self.env.borrow_mut().begin_op(idx, None, None, format!("set_adr({on})"));
                self.dut.set_adr(*on)
            }
            Op::Listen { frames, fault } => {
                // documented domain: Class C listening presupposes a session
                if self.dut.is_joined() {
                    self.env.borrow_mut().begin_op(idx, None, Some((frames, fault)), format!("rxc_listen ({} frames)", frames.len()));
                    self.dut.listen()
                } else {
                    self.env.borrow_mut().begin_op(idx, None, None, "rxc_listen skipped: no session (outside the documented domain)".into());
                    OpResult::Done
                }
            }
            Op::SaveRestore => {
                self.env.borrow_mut().begin_op(idx, None, None, "save session / power loss / restore into a fresh device".into());
                let (dr, adr) = (self.dut.get_dr(), self.dut.get_adr());
                // whatever the application has not collected yet is collected before the power goes
                pre_downlinks = self.dut.take_downlinks();
                let before = self.dut.snapshot().and_then(|s| s.session);
                // nb, every other time: the application applies its settings to the fresh device first and installs
                // the session last (both orders are legitimate)
                let settings_first = idx % 2 == 1 && self.env.borrow().cfg.frontend == Frontend::Nb;
                match self.dut.session_json() {
                    Some(json) => match {
                        if settings_first {
                            self.env.borrow_mut().restore_settings_first = Some((dr, adr));
                        }
                        self.dut.restore_from_json(&json)
                    } {
                        Ok(()) => {
                            // the application restores its own settings
                            if !settings_first {
                                let _ = self.dut.set_dr(dr);
                                if !adr {
                                    let _ = self.dut.set_adr(false);
                                }
                            }
                            let after = self.dut.snapshot().and_then(|s| s.session);
                            let json2 = self.dut.session_json();
                            if before != after {
                                OpResult::Unexpected(format!("roundtrip-field: session before {:?} after {:?}", before, after))
                            } else if json2.as_deref() != Some(json.as_str()) {
                                OpResult::Unexpected("roundtrip-text: the restored session serialises to a different document".to_string())
                            } else if let Err(e) = crate::dut::reordered_roundtrip(&self.env, &json) {
                                // the store may hand the members of the document back in another order
                                OpResult::Unexpected(format!("roundtrip-reordered: {e}"))
                            } else {
                                self.env.borrow_mut().bump("probe.save-restore");
                                OpResult::Done
                            }
                        }
                        Err(e) => OpResult::Unexpected(format!("roundtrip-refused: own serialisation refused: {e}")),
                    },
                    None => OpResult::Done,
                }
            }
            Op::RestoreMutated(m) => {
                self.env.borrow_mut().begin_op(idx, None, None, format!("restore from a mutated document (kind {}, arg {})", m.kind, m.arg));
                match self.dut.session_json() {
                    Some(json) => {
                        let mutated = crate::mutate::mutate_json(&json, m);
                        self.env.borrow_mut().push(Ev::Note(format!("document: {}", mutated.chars().take(400).collect::<String>())));
                        match self.dut.restore_from_json(&mutated) {
                            Ok(()) => {
                                let mut e = self.env.borrow_mut();
                                e.mutated_session = true;
                                e.bump("probe.mutated-document-accepted");
                                OpResult::Done
                            }
                            Err(e) if e.starts_with("PANIC") => OpResult::Panic { msg: e, loc: "deserialisation".into() },
                            Err(_) => {
                                self.env.borrow_mut().bump("probe.mutated-document-refused");
                                OpResult::Done
                            }
                        }
                    }
                    None => OpResult::Done,
                }
            }
            Op::Misuse(_) => {
                self.env.borrow_mut().begin_op(idx, None, None, "no-op".into());
                OpResult::Done
            }
        };
        // a lazy application collects its downlinks only after every fourth operation
        let lazy_skip = self.env.borrow().cfg.lazy_app && idx % 4 != 3 && !matches!(op, Op::SaveRestore | Op::RestoreMutated(_) | Op::Misuse(_));
        let mut downlinks = pre_downlinks;
        if !result.is_panic() && !lazy_skip {
            downlinks.extend(self.dut.take_downlinks());
        }
        let (fcnt_up_after, fcnt_down_after, dr_after, adr_after) =
            if result.is_panic() { (None, None, 0, false) } else { (self.dut.fcnt_up(), self.dut.fcnt_down(), self.dut.get_dr(), self.dut.get_adr()) };
        let snap_after = if result.is_panic() { None } else { self.dut.snapshot() };
        let mut e = self.env.borrow_mut();
        for (p, d) in &downlinks {
            e.push(Ev::Downlink { port: *p, data: d.clone() });
        }
        e.end_op(result.short());
        let rec = OpRecord {
            idx,
            op: op.clone(),
            result,
            trace_lo,
            trace_hi: e.trace.len(),
            del_lo,
            del_hi: e.delivered.len(),
            downlinks,
            fcnt_up_after,
            fcnt_down_after,
            dr_after,
            adr_after,
            payload,
            ref_joined_before,
            snap_before,
            snap_after,
        };
        drop(e);
        self.records.push(rec.clone());
        rec
    }
}

pub struct RunOutput {
    pub violation: Option<Violation>,
    pub stats: RunStats,
    pub trace: Vec<String>,
}

/// Run a whole case under a monitor.
pub fn run_case(case: &MacCase, mon: &mut dyn Monitor, want_trace: bool) -> RunOutput {
    let mut w = World::new(&case.cfg);
    let mut stats = RunStats::default();
    let mut violation = None;
    for (idx, op) in case.ops.iter().enumerate() {
        let rec = w.step(idx, op);
        if let Some(v) = mon.after_op(&mut w, &rec, &mut stats) {
            violation = Some(v);
            break;
        }
        if rec.result.is_panic() {
            // a device that panicked cannot be driven further
            break;
        }
    }
    if violation.is_none() {
        violation = mon.at_end(&mut w, &mut stats);
    }
    finish(&w, &mut stats);
    let trace = if want_trace { render_trace(&w, &case.cfg) } else { vec![] };
    RunOutput { violation, stats, trace }
}

pub fn finish(w: &World, stats: &mut RunStats) {
    let e = w.env.borrow();
    stats.sim_ms += e.now_ms.saturating_sub(clock_start_ms(e.cfg.clock_epoch));
    stats.steps += e.sim_events;
    for (k, v) in &e.counters {
        stats.add(k, *v);
    }
    // trace shape: kinds of events and results, not payload bytes
    let mut h = Fnv::new();
    h.str(&format!("{:?}{:?}", e.cfg.region, e.cfg.frontend));
    for ev in &e.trace {
        h.str(ev.kind());
        match ev {
            Ev::OpEnd { result, .. } => h.str(result.split('(').next().unwrap_or("")),
            Ev::Deliver { win, verdict, .. } => {
                h.str(&format!("{win:?}"));
                h.str(verdict.split('(').next().unwrap_or(""));
            }
            Ev::RxSingle { outcome, .. } | Ev::RxCont { outcome, .. } => h.str(outcome.split('(').next().unwrap_or("")),
            _ => {}
        }
    }
    stats.shape = h.finish();
}

pub fn render_trace(w: &World, cfg: &WorldCfg) -> Vec<String> {
    let e = w.env.borrow();
    let mut out = Vec::with_capacity(e.trace.len() + 1);
    out.push(format!(
        "world: region={:?} frontend={:?} otaa={} board={:?} lead={} fcnt_up0={} fcnt_down0={:?} join_bias={:?}",
        cfg.region,
        cfg.frontend,
        cfg.otaa,
        BOARDS[cfg.board as usize % BOARDS.len()],
        cfg.lead_ms,
        cfg.fcnt_up0,
        cfg.fcnt_down0,
        cfg.join_bias
    ));
    if cfg.small_buffer {
        out.push(format!("device radio buffer N = {} bytes", crate::script::SMALL_N));
    }
    for ev in &e.trace {
        out.push(ev.line());
    }
    out
}
