//! Drivers for the two real device front-ends. The harness *is* the
//! application (and, for the nb device, the event loop and timer).

use crate::script::*;
use crate::world::*;
use lorawan_device::async_device;
use lorawan_device::mac::Session;
use lorawan_device::nb_device;
use lorawan_device::region;
use lorawan_device::{AppEui, AppKey, AppSKey, DevAddr, DevEui, JoinMode, NwkSKey};
use simcore::{location_is_harness, panic_message, take_last_panic_location};
use std::future::Future;
use std::panic::{catch_unwind, resume_unwind, AssertUnwindSafe};
use std::task::{Context, Poll, Waker};

#[derive(Clone, Debug, PartialEq, Eq)]
pub enum OpResult {
    JoinSuccess,
    NoJoinAccept,
    Downlink(u32),
    NoAck,
    RxComplete,
    SessionExpired,
    /// async: the application dropped the `join()` / `send()` future at a scripted wait
    Cancelled,
    RadioErr,
    NotJoined,
    /// the uplink was refused because it does not fit a frame
    TooLarge,
    StateErr(String),
    /// nb: the power was cut in the middle of the procedure; the device was rebuilt from the session stored then
    PowerCut,
    /// Listen: results of the successive `rxc_listen` calls; the last (pending) call is dropped
    Listened(Vec<OpResult>),
    /// settings calls
    Done,
    Panic { msg: String, loc: String },
    Livelock,
    Unexpected(String),
}

impl OpResult {
    pub fn short(&self) -> String {
        format!("{self:?}")
    }
    pub fn is_panic(&self) -> bool {
        matches!(self, OpResult::Panic { .. } | OpResult::Livelock)
    }
}

pub trait Dut {
    fn join(&mut self) -> OpResult;
    fn send(&mut self, data: &[u8], port: u8, confirmed: bool) -> OpResult;
    fn listen(&mut self) -> OpResult;
    fn set_dr(&mut self, dr: u8) -> OpResult;
    fn get_dr(&mut self) -> u8;
    fn set_adr(&mut self, on: bool) -> OpResult;
    fn get_adr(&mut self) -> bool;
    fn take_downlinks(&mut self) -> Vec<(u8, Vec<u8>)>;
    fn session_json(&mut self) -> Option<String>;
    /// Drop the device (power loss) and build a fresh one from the stored document.
    fn restore_from_json(&mut self, json: &str) -> Result<(), String>;
    fn fcnt_down(&mut self) -> Option<Option<u32>>;
    fn fcnt_up(&mut self) -> Option<u32>;
    fn session_keys(&mut self) -> Option<([u8; 16], [u8; 16], u32)>;
    fn is_joined(&mut self) -> bool {
        self.fcnt_up().is_some()
    }
    fn snapshot(&mut self) -> Option<crate::snapshot::Snap>;
}

pub fn region_config(cfg: &WorldCfg) -> region::Configuration {
    use region::{Configuration, Region, Subband, AU915, US915};
    fn sb(k: u8) -> Subband {
        match k {
            1 => Subband::_1,
            2 => Subband::_2,
            3 => Subband::_3,
            4 => Subband::_4,
            5 => Subband::_5,
            6 => Subband::_6,
            7 => Subband::_7,
            _ => Subband::_8,
        }
    }
    match cfg.region {
        RegionId::AS923_1 => Configuration::new(Region::AS923_1),
        RegionId::AS923_2 => Configuration::new(Region::AS923_2),
        RegionId::AS923_3 => Configuration::new(Region::AS923_3),
        RegionId::AS923_4 => Configuration::new(Region::AS923_4),
        RegionId::EU868 => Configuration::new(Region::EU868),
        RegionId::EU433 => Configuration::new(Region::EU433),
        RegionId::IN865 => Configuration::new(Region::IN865),
        RegionId::US915 => {
            let mut r = US915::new();
            if let Some((s, n)) = cfg.join_bias {
                r.set_join_bias_and_noncompliant_retries(sb(s), n as usize);
            }
            r.into()
        }
        RegionId::AU915 => {
            let mut r = AU915::new();
            if let Some((s, n)) = cfg.join_bias {
                r.set_join_bias_and_noncompliant_retries(sb(s), n as usize);
            }
            r.into()
        }
    }
}

/// Build a `Session` with arbitrary counters through the public persistence API (no hook needed).
pub fn make_session(keys: &crate::refcodec::SessionKeys, fcnt_up: u32, fcnt_down: Option<u32>) -> Session {
    let s = Session::new(NwkSKey::from(keys.nwk), AppSKey::from(keys.app), DevAddr::from_value(keys.devaddr));
    let mut v = serde_json::to_value(&s).expect("session serialises");
    v["fcnt_up"] = serde_json::json!(fcnt_up);
    v["fcnt_down"] = match fcnt_down {
        Some(n) => serde_json::json!(n),
        None => serde_json::Value::Null,
    };
    // through the text form: the entry point every application uses
    match serde_json::from_str(&serde_json::to_string(&v).expect("value serialises")) {
        Ok(s) => s,
        Err(e) => panic!("{}: a session document with fcnt_up={fcnt_up} fcnt_down={fcnt_down:?} was refused: {e}", simcore::SETUP_REFUSED),
    }
}

/// Deserialise a stored session; a panic inside the deserialiser is reported as `Err("PANIC ...")`.
fn parse_session(env: &EnvRef, json: &str) -> Result<Session, String> {
    match guarded(env, || serde_json::from_str::<Session>(json)) {
        Ok(r) => r.map_err(|e| e.to_string()),
        Err(OpResult::Panic { msg, loc }) => Err(format!("PANIC {msg} at {loc}")),
        Err(other) => Err(format!("PANIC {other:?}")),
    }
}

/// Serialise a JSON value with the members of every object in reverse alphabetical order (a store
/// that does not keep the member order of the document it was given).
fn to_string_reversed(v: &serde_json::Value, out: &mut String) {
    match v {
        serde_json::Value::Object(m) => {
            out.push('{');
            for (i, (k, x)) in m.iter().rev().enumerate() {
                if i > 0 {
                    out.push(',');
                }
                out.push_str(&serde_json::to_string(k).unwrap_or_default());
                out.push(':');
                to_string_reversed(x, out);
            }
            out.push('}');
        }
        serde_json::Value::Array(a) => {
            out.push('[');
            for (i, x) in a.iter().enumerate() {
                if i > 0 {
                    out.push(',');
                }
                to_string_reversed(x, out);
            }
            out.push(']');
        }
        other => out.push_str(&other.to_string()),
    }
}

/// The same document as stored by carriers that re-order object members: sorted and reverse-sorted.
/// Each is parsed back; `Err` tells which carrier lost or changed something.
pub fn reordered_roundtrip(env: &EnvRef, json: &str) -> Result<(), String> {
    let Ok(v) = serde_json::from_str::<serde_json::Value>(json) else { return Ok(()) };
    let sorted = serde_json::to_string(&v).unwrap_or_default();
    let mut reversed = String::new();
    to_string_reversed(&v, &mut reversed);
    // other entry points of the same deserialiser: a byte stream (no borrowed strings) and an owned value tree
    let via_reader = guarded(env, || serde_json::from_reader::<_, Session>(json.as_bytes()));
    let via_value = guarded(env, || serde_json::from_value::<Session>(v.clone()));
    for (name, r) in [("read from a byte stream", via_reader), ("read from a value tree", via_value)] {
        match r {
            Ok(Ok(s)) => {
                let again = serde_json::to_string(&s).unwrap_or_default();
                if again != json {
                    return Err(format!("{name}: restored session serialises to {again} instead of {json}"));
                }
            }
            Ok(Err(e)) => return Err(format!("{name}: refused: {e}")),
            Err(_) => return Err(format!("{name}: the deserialiser panicked")),
        }
    }
    for (name, doc) in [("members sorted", sorted), ("members reverse-sorted", reversed)] {
        match parse_session(env, &doc) {
            Ok(s) => {
                let again = serde_json::to_string(&s).unwrap_or_default();
                if again != json {
                    return Err(format!("{name}: restored session serialises to {again} instead of {json}"));
                }
            }
            Err(e) => return Err(format!("{name}: refused: {e}")),
        }
    }
    Ok(())
}

fn otaa_mode(id: &Identity) -> JoinMode {
    JoinMode::OTAA { deveui: DevEui::from(id.deveui), appeui: AppEui::from(id.appeui), appkey: AppKey::from(id.appkey) }
}

/// Run a device call; classify panics. Harness panics are re-raised.
fn guarded<T>(env: &EnvRef, f: impl FnOnce() -> T) -> Result<T, OpResult> {
    env.borrow_mut().draws_in_call = 0;
    match catch_unwind(AssertUnwindSafe(f)) {
        Ok(v) => Ok(v),
        Err(p) => {
            let msg = panic_message(&*p);
            let loc = take_last_panic_location().unwrap_or_default();
            if msg.contains("SIM-LIVELOCK") {
                return Err(OpResult::Livelock);
            }
            if location_is_harness(&loc) {
                resume_unwind(p);
            }
            Err(OpResult::Panic { msg, loc })
        }
    }
}

/// Poll a future to completion with a no-op waker. `None` when it stays pending (idle Class C listener).
fn drive<F: Future>(env: &EnvRef, fut: F) -> Option<F::Output> {
    let mut fut = std::pin::pin!(fut);
    let mut cx = Context::from_waker(Waker::noop());
    for _ in 0..64 {
        match fut.as_mut().poll(&mut cx) {
            Poll::Ready(v) => return Some(v),
            Poll::Pending => {
                let e = env.borrow();
                if e.rxc_idle || e.cancel_hit {
                    return None;
                }
            }
        }
    }
    panic!("harness: future stayed pending without an idle listener");
}

// ---------------------------------------------------------------------------------------------
// async front-end
// ---------------------------------------------------------------------------------------------

/// A radio the async device can be built on inside the simulated world: the stub (`SimRadio`) or the full
/// stack (`stack::StackRadio`: real lora-phy on a simulated chip).
pub trait WorldRadio: async_device::radio::PhyRxTx + async_device::Timings {
    fn build(env: &EnvRef) -> Self;
}

impl<const P: u8, const G: i8> WorldRadio for SimRadio<P, G> {
    fn build(env: &EnvRef) -> Self {
        SimRadio::<P, G>::new(env.clone())
    }
}

impl<RK: crate::stack::StackKind, const P: u8, const G: i8> WorldRadio for crate::stack::StackRadio<RK, P, G> {
    fn build(env: &EnvRef) -> Self {
        crate::stack::StackRadio::<RK, P, G>::new(env.clone())
    }
}

type ADev<R, const N: usize, const D: usize> = async_device::Device<R, SimTimer, SimRng, N, D>;

pub struct AsyncDut<R: WorldRadio, const N: usize, const D: usize = 8> {
    env: EnvRef,
    dev: ADev<R, N, D>,
    class_c: bool,
}

impl<R: WorldRadio, const N: usize, const D: usize> AsyncDut<R, N, D> {
    fn build(env: &EnvRef, session: Option<Session>, class_c: bool) -> ADev<R, N, D> {
        let cfg = env.borrow().cfg.clone();
        let mut dev = async_device::Device::new_with_session(
            region_config(&cfg),
            R::build(env),
            SimTimer { env: env.clone() },
            SimRng { env: env.clone() },
            session,
        );
        if class_c {
            dev.enable_class_c();
        }
        dev
    }
    pub fn new(env: &EnvRef) -> Self {
        let (cfg, id) = {
            let e = env.borrow();
            (e.cfg.clone(), e.id.clone())
        };
        let class_c = cfg.frontend == Frontend::AsyncC;
        let session = if cfg.otaa { None } else { Some(make_session(&id.abp, cfg.fcnt_up0, cfg.fcnt_down0)) };
        AsyncDut { env: env.clone(), dev: Self::build(env, session, class_c), class_c }
    }
    fn map_send(r: Result<async_device::SendResponse, async_device::Error<R::PhyError>>) -> OpResult {
        use async_device::SendResponse as S;
        match r {
            Ok(S::DownlinkReceived(n)) => OpResult::Downlink(n),
            Ok(S::SessionExpired) => OpResult::SessionExpired,
            Ok(S::NoAck) => OpResult::NoAck,
            Ok(S::RxComplete) => OpResult::RxComplete,
            Err(async_device::Error::Radio(_)) => OpResult::RadioErr,
            // matched by name so that the harness also builds against a tree without that variant
            Err(async_device::Error::Mac(e)) if format!("{e:?}") == "PayloadTooLarge" => OpResult::TooLarge,
            Err(async_device::Error::Mac(_)) => OpResult::NotJoined,
        }
    }
}

impl<R: WorldRadio, const N: usize, const D: usize> Dut for AsyncDut<R, N, D> {
    fn join(&mut self) -> OpResult {
        let mode = otaa_mode(&self.env.borrow().id);
        let env = self.env.clone();
        let dev = &mut self.dev;
        match guarded(&env, || drive(&env, dev.join(&mode))) {
            Ok(Some(Ok(async_device::JoinResponse::JoinSuccess))) => OpResult::JoinSuccess,
            Ok(Some(Ok(async_device::JoinResponse::NoJoinAccept))) => OpResult::NoJoinAccept,
            Ok(Some(Err(async_device::Error::Radio(_)))) => OpResult::RadioErr,
            Ok(Some(Err(async_device::Error::Mac(_)))) => OpResult::NotJoined,
            Ok(None) if env.borrow().cancel_hit => OpResult::Cancelled,
            Ok(None) => OpResult::Unexpected("join stayed pending".into()),
            Err(e) => e,
        }
    }
    fn send(&mut self, data: &[u8], port: u8, confirmed: bool) -> OpResult {
        let env = self.env.clone();
        let dev = &mut self.dev;
        match guarded(&env, || drive(&env, dev.send(data, port, confirmed))) {
            Ok(Some(r)) => Self::map_send(r),
            Ok(None) if env.borrow().cancel_hit => OpResult::Cancelled,
            Ok(None) => OpResult::Unexpected("send stayed pending".into()),
            Err(e) => e,
        }
    }
    fn listen(&mut self) -> OpResult {
        let env = self.env.clone();
        let mut results = Vec::new();
        for _ in 0..32 {
            let dev = &mut self.dev;
            match guarded(&env, || drive(&env, dev.rxc_listen())) {
                Ok(Some(Ok(async_device::ListenResponse::DownlinkReceived(n)))) => results.push(OpResult::Downlink(n)),
                Ok(Some(Ok(async_device::ListenResponse::SessionExpired))) => results.push(OpResult::SessionExpired),
                Ok(Some(Err(async_device::Error::Radio(_)))) => results.push(OpResult::RadioErr),
                Ok(Some(Err(async_device::Error::Mac(_)))) => {
                    results.push(OpResult::NotJoined);
                    // without a session every heard frame ends the call the same way; stop when the
                    // script has nothing more to deliver
                }
                Ok(None) => break,
                Err(e) => return e,
            }
            // The application awaits rxc_listen() again after every result; the call made when nothing is left to
            // deliver pends (and is dropped by the harness, above). Only a device without a session ends every call
            // at once: there the loop stops when the script is exhausted.
            let e = env.borrow();
            let more = e.cursor[4] < e.listen_frames.len() || e.fault.is_some();
            if !more && matches!(results.last(), Some(OpResult::NotJoined) | Some(OpResult::RadioErr)) {
                break;
            }
        }
        OpResult::Listened(results)
    }
    fn set_dr(&mut self, dr: u8) -> OpResult {
        let env = self.env.clone();
        let dev = &mut self.dev;
        match guarded(&env, || dev.set_datarate(region::DR::from(dr))) {
            Ok(()) => OpResult::Done,
            Err(e) => e,
        }
    }
    fn get_dr(&mut self) -> u8 {
        self.dev.get_datarate() as u8
    }
    fn set_adr(&mut self, on: bool) -> OpResult {
        self.dev.set_adr(on);
        OpResult::Done
    }
    fn get_adr(&mut self) -> bool {
        self.dev.get_adr()
    }
    fn take_downlinks(&mut self) -> Vec<(u8, Vec<u8>)> {
        let mut v = Vec::new();
        while let Some(d) = self.dev.take_downlink() {
            v.push((d.fport, d.data.to_vec()));
        }
        v
    }
    fn session_json(&mut self) -> Option<String> {
        self.dev.get_session().map(|s| serde_json::to_string(s).expect("session serialises"))
    }
    fn restore_from_json(&mut self, json: &str) -> Result<(), String> {
        let s: Session = parse_session(&self.env, json)?;
        self.dev = Self::build(&self.env, Some(s), self.class_c);
        Ok(())
    }
    fn fcnt_down(&mut self) -> Option<Option<u32>> {
        self.dev.get_session().map(|s| s.fcnt_down())
    }
    fn fcnt_up(&mut self) -> Option<u32> {
        self.dev.get_session().map(|s| s.fcnt_up)
    }
    fn session_keys(&mut self) -> Option<([u8; 16], [u8; 16], u32)> {
        self.dev.get_session().map(|s| {
            let n: [u8; 16] = s.nwkskey().as_ref().try_into().unwrap();
            let a: [u8; 16] = s.appskey().as_ref().try_into().unwrap();
            (n, a, s.devaddr().value())
        })
    }
    fn snapshot(&mut self) -> Option<crate::snapshot::Snap> {
        Some(crate::snapshot::Snap::from_hook(&self.dev.verif_snapshot()))
    }
}

// ---------------------------------------------------------------------------------------------
// nb front-end
// ---------------------------------------------------------------------------------------------

fn describe_nb<R: nb_device::radio::PhyRxTx>(r: &Result<nb_device::Response, nb_device::Error<R>>) -> (String, RespCode) {
    use nb_device::Response as R_;
    match r {
        Ok(x) => {
            let code = match x {
                R_::NoUpdate => RespCode::NoUpdate,
                R_::TimeoutRequest(t) => RespCode::TimeoutRequest(*t),
                R_::JoinRequestSending | R_::UplinkSending(_) => RespCode::UplinkSending,
                R_::JoinSuccess => RespCode::JoinSuccess,
                R_::NoJoinAccept => RespCode::NoJoinAccept,
                R_::DownlinkReceived(n) => RespCode::Downlink(*n),
                R_::NoAck => RespCode::NoAck,
                R_::ReadyToSend => RespCode::ReadyToSend,
                R_::SessionExpired => RespCode::SessionExpired,
                R_::RxComplete => RespCode::RxComplete,
            };
            (format!("{x:?}"), code)
        }
        Err(nb_device::Error::Radio(_)) => ("Err(Radio)".to_string(), RespCode::ErrRadio),
        Err(nb_device::Error::State(s)) => (format!("Err(State({s:?}))"), RespCode::ErrState),
        Err(nb_device::Error::Mac(m)) => (format!("Err(Mac({m:?}))"), RespCode::ErrMac),
    }
}

type NDev<const P: u8, const G: i8, const N: usize, const D: usize> = nb_device::Device<SimRadio<P, G>, SimRng, N, D>;

pub struct NbDut<const P: u8, const G: i8, const N: usize, const D: usize = 8> {
    env: EnvRef,
    dev: NDev<P, G, N, D>,
}

#[derive(Clone, Copy, PartialEq, Eq, Debug)]
enum NbStage {
    AwaitTxDone,
    WaitRx1Start,
    InRx1,
    WaitRx2Start,
    InRx2,
}

impl<const P: u8, const G: i8, const N: usize, const D: usize> NbDut<P, G, N, D> {
    fn build(env: &EnvRef, session: Option<Session>) -> NDev<P, G, N, D> {
        let cfg = env.borrow().cfg.clone();
        let mut dev = nb_device::Device::new(region_config(&cfg), SimRadio::<P, G>::new(env.clone()), SimRng { env: env.clone() });
        if let Some(s) = session {
            dev.set_session(s);
        }
        dev
    }
    pub fn new(env: &EnvRef) -> Self {
        let (cfg, id) = {
            let e = env.borrow();
            (e.cfg.clone(), e.id.clone())
        };
        let session = if cfg.otaa { None } else { Some(make_session(&id.abp, cfg.fcnt_up0, cfg.fcnt_down0)) };
        NbDut { env: env.clone(), dev: Self::build(env, session) }
    }

    fn event(&mut self, ev: nb_device::Event<'_, SimRadio<P, G>>, name: &str) -> Result<Result<nb_device::Response, nb_device::Error<SimRadio<P, G>>>, OpResult> {
        let env = self.env.clone();
        let dev = &mut self.dev;
        let r = guarded(&env, || dev.handle_event(ev))?;
        let (resp, code) = describe_nb(&r);
        let now = env.borrow().now_ms;
        env.borrow_mut().push(Ev::NbEvent { ev: name.to_string(), resp, now, code });
        Ok(r)
    }

    /// The application event loop for one procedure, started by `first`.
    fn drive(&mut self, first: Result<nb_device::Response, nb_device::Error<SimRadio<P, G>>>) -> OpResult {
        use nb_device::Response as R;
        let mut stage = NbStage::AwaitTxDone;
        let mut resp = first;
        let mut pending_timeout: Option<u32> = None;
        let (late, mut spurious) = {
            let e = self.env.borrow();
            (e.txn.nb_timer_late_ms as u64, e.txn.nb_spurious)
        };
        let mut after_radio_err = false;
        for _ in 0..200 {
            // a device may abandon the procedure on a radio error (it answers the application's retry of the event
            // with "radio event while idle"): the operation then ended in that radio error
            if after_radio_err {
                if let Err(nb_device::Error::State(s)) = &resp {
                    if format!("{s:?}") == "RadioEventWhileIdle" {
                        return OpResult::RadioErr;
                    }
                }
            }
            after_radio_err = matches!(resp, Err(nb_device::Error::Radio(_)));
            // interpret the last response
            match resp {
                Ok(R::JoinSuccess) => return OpResult::JoinSuccess,
                Ok(R::NoJoinAccept) => return OpResult::NoJoinAccept,
                Ok(R::DownlinkReceived(n)) => return OpResult::Downlink(n),
                Ok(R::NoAck) => return OpResult::NoAck,
                Ok(R::RxComplete) => return OpResult::RxComplete,
                Ok(R::SessionExpired) => return OpResult::SessionExpired,
                Ok(R::ReadyToSend) => return OpResult::Unexpected("ReadyToSend".into()),
                Ok(R::UplinkSending(_)) | Ok(R::JoinRequestSending) => {
                    stage = NbStage::AwaitTxDone;
                }
                Ok(R::TimeoutRequest(t)) => {
                    pending_timeout = Some(t);
                    if stage == NbStage::AwaitTxDone {
                        // the transmission is over: the application may change the data rate now
                        let mid = self.env.borrow().txn.nb_set_dr_mid;
                        if let Some(dr) = mid {
                            let region = self.env.borrow().cfg.region;
                            let snap = crate::snapshot::Snap::from_hook(&self.dev.verif_snapshot());
                            let mut usable = crate::refregion::uplink_drs(region).contains(&dr);
                            if usable && region.is_fixed() {
                                if let Some(def) = crate::refregion::dr_def(region, dr) {
                                    let range = if def.bw == 500 { 64..72 } else { 0..64 };
                                    usable = range.into_iter().any(|c| snap.mask_bit(c));
                                }
                            }
                            if usable {
                                self.dev.set_datarate(region::DR::from(dr));
                                self.env.borrow_mut().push(Ev::Note(format!("application calls set_datarate({dr}) between TX and RX1")));
                            }
                        }
                    }
                    stage = match stage {
                        NbStage::AwaitTxDone => NbStage::WaitRx1Start,
                        NbStage::WaitRx1Start => NbStage::InRx1,
                        NbStage::InRx1 => NbStage::WaitRx2Start,
                        NbStage::WaitRx2Start => NbStage::InRx2,
                        NbStage::InRx2 => NbStage::InRx2,
                    };
                    let intr = self.env.borrow().txn.nb_intrude;
                    let at = match stage {
                        NbStage::WaitRx1Start => 1,
                        NbStage::InRx1 => 2,
                        NbStage::WaitRx2Start => 3,
                        _ => 0,
                    };
                    if intr != 0 && at != 0 && (intr & 3) == at {
                        // a request the state machine cannot serve in this state: it must be refused
                        self.env.borrow_mut().bump("fault.nb-intrusion");
                        let r = match (intr >> 2) & 3 {
                            0 => {
                                let env = self.env.clone();
                                let dev = &mut self.dev;
                                let r = guarded(&env, || dev.send(&[0xEE, 0xEE], 99, false));
                                if let Ok(r) = &r {
                                    let (resp, code) = describe_nb(r);
                                    let now = env.borrow().now_ms;
                                    env.borrow_mut().push(Ev::NbEvent { ev: "SendDataRequest(intruding)".into(), resp, now, code });
                                }
                                r
                            }
                            1 => {
                                let mode = otaa_mode(&self.env.borrow().id);
                                let env = self.env.clone();
                                let dev = &mut self.dev;
                                let r = guarded(&env, || dev.join(mode));
                                if let Ok(r) = &r {
                                    let (resp, code) = describe_nb(r);
                                    let now = env.borrow().now_ms;
                                    env.borrow_mut().push(Ev::NbEvent { ev: "Join(intruding)".into(), resp, now, code });
                                }
                                r
                            }
                            _ => self.event(nb_device::Event::RadioEvent(nb_device::radio::Event::Phy(NbPhyEvent::Noise)), "Radio(Noise, intruding)"),
                        };
                        match r {
                            Ok(Err(nb_device::Error::State(_))) | Ok(Ok(R::NoUpdate)) | Ok(Err(nb_device::Error::Radio(_))) => {}
                            Ok(other) => return OpResult::Unexpected(format!("a request issued in the middle of the procedure was answered {:?}", other.map_err(|_| ()))),
                            Err(e) => return e,
                        }
                    }
                    let cut = self.env.borrow().txn.nb_power_cut;
                    if (cut == Some(1) && stage == NbStage::WaitRx1Start) || (cut == Some(2) && stage == NbStage::WaitRx2Start) {
                        // between two events of the procedure the application stores the session; then the power goes
                        if let Some(json) = self.session_json() {
                            let (dr, adr) = (self.dev.get_datarate(), self.dev.get_adr());
                            if let Ok(sess) = parse_session(&self.env, &json) {
                                self.env.borrow_mut().push(Ev::Note(format!("power cut in the middle of the procedure ({stage:?}); device restored from the session stored at that moment")));
                                self.env.borrow_mut().bump("probe.nb-mid-procedure-power-cut");
                                self.dev = Self::build(&self.env, Some(sess));
                                self.dev.set_datarate(dr);
                                self.dev.set_adr(adr);
                                return OpResult::PowerCut;
                            }
                        }
                    }
                }
                Ok(R::NoUpdate) => {}
                Err(nb_device::Error::Radio(_)) => {
                    if stage == NbStage::AwaitTxDone && !self.env.borrow().nb_deferred_tx_pending {
                        // the transmit request itself failed: the procedure never started
                        return OpResult::RadioErr;
                    }
                    // otherwise the application retries the event below (the fault is consumed)
                }
                Err(nb_device::Error::State(s)) if matches!(stage, NbStage::InRx1 | NbStage::InRx2) && format!("{s:?}") == "BufferTooSmall" => {
                    // the frame does not fit the device's radio buffer: reported, the window stays open
                }
                Err(nb_device::Error::State(s)) => return OpResult::StateErr(format!("{s:?}")),
                Err(nb_device::Error::Mac(e)) if format!("{e:?}") == "PayloadTooLarge" => return OpResult::TooLarge,
                Err(nb_device::Error::Mac(_)) => return OpResult::NotJoined,
            }
            // decide the next event
            if stage == NbStage::AwaitTxDone {
                if spurious > 0 {
                    spurious -= 1;
                    match self.event(nb_device::Event::TimeoutFired, "TimeoutFired(spurious)") {
                        Ok(r) => {
                            if !matches!(r, Ok(R::NoUpdate)) {
                                return OpResult::Unexpected(format!("spurious timeout while sending answered {:?}", r.map_err(|_| ())));
                            }
                        }
                        Err(e) => return e,
                    }
                }
                resp = match self.event(nb_device::Event::RadioEvent(nb_device::radio::Event::Phy(NbPhyEvent::TxComplete)), "Radio(TxComplete)") {
                    Ok(r) => r,
                    Err(e) => return e,
                };
                continue;
            }
            if matches!(stage, NbStage::InRx1 | NbStage::InRx2) {
                let win = if stage == NbStage::InRx1 { Win::Rx1 } else { Win::Rx2 };
                if spurious > 0 {
                    spurious -= 1;
                    match self.event(nb_device::Event::RadioEvent(nb_device::radio::Event::Phy(NbPhyEvent::Noise)), "Radio(Noise)") {
                        Ok(Ok(R::NoUpdate)) => {}
                        Ok(Err(nb_device::Error::Radio(_))) => {}
                        Ok(other) => return OpResult::Unexpected(format!("noise in window answered {:?}", other.map_err(|_| ()))),
                        Err(e) => return e,
                    }
                }
                let next = self.env.borrow_mut().next_frame(win);
                if let Some(spec) = next {
                    {
                        let mut e = self.env.borrow_mut();
                        let lost = matches!(&e.fault, Some(f) if f.pos <= e.pos && e.pos <= f.pos + f.extra);
                        if lost {
                            // the radio fails while handing the frame over: nobody ever sees it (it is not judged)
                            e.push(Ev::Note("a frame on air is lost to the radio error that follows".into()));
                            e.bump("probe.frame-lost-to-radio-error");
                            e.nb_rx_buf = Vec::new();
                        } else {
                            let mut buf = [0u8; 256];
                            let n = e.deliver(&spec, win, &mut buf);
                            e.nb_rx_buf = buf[..n].to_vec();
                        }
                    }
                    resp = match self.event(nb_device::Event::RadioEvent(nb_device::radio::Event::Phy(NbPhyEvent::FrameReady)), "Radio(FrameReady)") {
                        Ok(r) => r,
                        Err(e) => return e,
                    };
                    // a NoUpdate keeps the window open: loop and deliver the next frame
                    if matches!(resp, Ok(R::TimeoutRequest(_))) {
                        return OpResult::Unexpected("TimeoutRequest in answer to a frame".into());
                    }
                    continue;
                }
            }
            // fire the requested timeout
            let Some(t) = pending_timeout else {
                return OpResult::Unexpected(format!("no timeout pending in stage {stage:?}"));
            };
            {
                // the board's clock is a 32-bit millisecond counter: `t` is to be read modulo 2^32
                let mut e = self.env.borrow_mut();
                let ahead = t.wrapping_sub(e.now_ms as u32);
                if ahead < (1 << 31) {
                    e.now_ms += ahead as u64;
                }
                e.now_ms += late;
            }
            resp = match self.event(nb_device::Event::TimeoutFired, "TimeoutFired") {
                Ok(r) => r,
                Err(e) => return e,
            };
        }
        OpResult::Unexpected("nb procedure did not finish within 200 events".into())
    }
}

impl<const P: u8, const G: i8, const N: usize, const D: usize> Dut for NbDut<P, G, N, D> {
    fn join(&mut self) -> OpResult {
        let mode = otaa_mode(&self.env.borrow().id);
        let env = self.env.clone();
        let dev = &mut self.dev;
        let first = match guarded(&env, || dev.join(mode)) {
            Ok(r) => r,
            Err(e) => return e,
        };
        let now = env.borrow().now_ms;
        let (resp, code) = describe_nb(&first);
        env.borrow_mut().push(Ev::NbEvent { ev: "Join".into(), resp, now, code });
        self.drive(first)
    }
    fn send(&mut self, data: &[u8], port: u8, confirmed: bool) -> OpResult {
        let env = self.env.clone();
        let dev = &mut self.dev;
        let first = match guarded(&env, || dev.send(data, port, confirmed)) {
            Ok(r) => r,
            Err(e) => return e,
        };
        let now = env.borrow().now_ms;
        let (resp, code) = describe_nb(&first);
        env.borrow_mut().push(Ev::NbEvent { ev: "SendDataRequest".into(), resp, now, code });
        self.drive(first)
    }
    fn listen(&mut self) -> OpResult {
        OpResult::Done
    }
    fn set_dr(&mut self, dr: u8) -> OpResult {
        self.dev.set_datarate(region::DR::from(dr));
        OpResult::Done
    }
    fn get_dr(&mut self) -> u8 {
        self.dev.get_datarate() as u8
    }
    fn set_adr(&mut self, on: bool) -> OpResult {
        self.dev.set_adr(on);
        OpResult::Done
    }
    fn get_adr(&mut self) -> bool {
        self.dev.get_adr()
    }
    fn take_downlinks(&mut self) -> Vec<(u8, Vec<u8>)> {
        let mut v = Vec::new();
        while let Some(d) = self.dev.take_downlink() {
            v.push((d.fport, d.data.to_vec()));
        }
        v
    }
    fn session_json(&mut self) -> Option<String> {
        self.dev.get_session().map(|s| serde_json::to_string(s).expect("session serialises"))
    }
    fn restore_from_json(&mut self, json: &str) -> Result<(), String> {
        let s: Session = parse_session(&self.env, json)?;
        let first = self.env.borrow_mut().restore_settings_first.take();
        match first {
            Some((dr, adr)) => {
                // the application configures the fresh device first and installs the stored session last
                let mut dev = Self::build(&self.env, None);
                dev.set_datarate(region::DR::from(dr));
                dev.set_adr(adr);
                dev.set_session(s);
                self.dev = dev;
                self.env.borrow_mut().bump("probe.restore-settings-before-session");
            }
            None if self.env.borrow().cfg.restore_into_used => {
                // the device the stored session is installed into has a past of its own
                // (odd operation indices take the settings-before-session path above)
                let variant = (self.env.borrow().op_idx / 2) % 4;
                let (refs, pending, n_down, n_up) = {
                    let mut e = self.env.borrow_mut();
                    e.txn = Txn::default();
                    e.fault = None;
                    e.cursor = [0; 5];
                    (e.refs.clone(), e.pending_join.clone(), e.sent_down.len(), e.sent_up.len())
                };
                match variant {
                    0 => {
                        // re-installed on the running device
                        self.env.borrow_mut().push(Ev::Note("the stored session is re-installed on the running device".into()));
                        self.env.borrow_mut().bump("probe.restore-into-running-device");
                    }
                    1 => {
                        // the fresh device first tried to join; nobody answered (the network never heard it either)
                        self.dev = Self::build(&self.env, None);
                        self.env.borrow_mut().push(Ev::Note("the fresh device first tries to join; nobody answers".into()));
                        let r = self.join();
                        if r.is_panic() {
                            return Err(format!("PANIC in the join attempt before the restore: {r:?}"));
                        }
                        self.env.borrow_mut().bump("probe.restore-after-unanswered-join");
                    }
                    _ => {
                        // the fresh device first runs on another session for one uplink: other keys and address and
                        // a frame of that session heard in RX1 (2), or other keys under the very address of the
                        // stored session with counters far ahead of it (3)
                        let other = {
                            let mut e = self.env.borrow_mut();
                            let mut keys = e.id.foreign;
                            if variant == 3 {
                                keys.devaddr = s.devaddr().value();
                                make_session(&keys, s.fcnt_up.saturating_add(5).min(0xFFFF_FFF0), Some(0x00FF_0000))
                            } else {
                                let mut d = DataSpec::plain(1);
                                d.tamper = Tamper::ForeignSession;
                                d.body = Body::Data { port: 4, len: 2 };
                                e.txn.rx1.push(FrameSpec::Data(d));
                                make_session(&keys, 7, Some(3))
                            }
                        };
                        self.dev = Self::build(&self.env, Some(other));
                        self.env.borrow_mut().push(Ev::Note("the fresh device first sends one uplink on another session".into()));
                        let r = self.send(&[0xA5, 0x5A, 0x01], 9, false);
                        if r.is_panic() {
                            return Err(format!("PANIC in the uplink before the restore: {r:?}"));
                        }
                        let _ = self.take_downlinks();
                        self.env.borrow_mut().bump(if variant == 3 { "probe.restore-after-other-session-same-address" } else { "probe.restore-after-other-session" });
                    }
                }
                {
                    // none of that reached the network
                    let mut e = self.env.borrow_mut();
                    e.refs = refs;
                    e.pending_join = pending;
                    // ... and the frames of this episode are not among those a later replay / echo picks from
                    e.sent_down.truncate(n_down);
                    e.sent_up.truncate(n_up);
                }
                self.dev.set_session(s);
            }
            None => self.dev = Self::build(&self.env, Some(s)),
        }
        Ok(())
    }
    fn fcnt_down(&mut self) -> Option<Option<u32>> {
        self.dev.get_session().map(|s| s.fcnt_down())
    }
    fn fcnt_up(&mut self) -> Option<u32> {
        self.dev.get_session().map(|s| s.fcnt_up)
    }
    fn session_keys(&mut self) -> Option<([u8; 16], [u8; 16], u32)> {
        self.dev.get_session().map(|s| {
            let n: [u8; 16] = s.nwkskey().as_ref().try_into().unwrap();
            let a: [u8; 16] = s.appskey().as_ref().try_into().unwrap();
            (n, a, s.devaddr().value())
        })
    }
    fn snapshot(&mut self) -> Option<crate::snapshot::Snap> {
        Some(crate::snapshot::Snap::from_hook(&self.dev.verif_snapshot()))
    }
}

pub fn make_dut(env: &EnvRef) -> Box<dyn Dut> {
    let (fe, board) = {
        let e = env.borrow();
        (e.cfg.frontend, e.cfg.board as usize % BOARDS.len())
    };
    macro_rules! mk {
        ($p:literal, $g:literal) => {
            match fe {
                Frontend::Nb => Box::new(NbDut::<$p, $g, 256>::new(env)) as Box<dyn Dut>,
                _ => Box::new(AsyncDut::<SimRadio<$p, $g>, 256>::new(env)) as Box<dyn Dut>,
            }
        };
    }
    // full stack: real lora-phy on a simulated chip (async front-ends, board 0)
    let phy = env.borrow().cfg.phy;
    if let (Some(pc), true) = (phy, fe != Frontend::Nb) {
        use crate::stack::{StackRadio, K1261, K1262, K1272, K1276, KWl};
        use physim::rig::ChipKind;
        // keep in sync with script::BOARDS[1] = (22, 3) and BOARDS[4] = (17, -1): between them requests of
        // 2..22 dBm, even and odd, reach the PA code of every chip
        let small = env.borrow().cfg.small_buffer;
        let (pc, board) = {
            // normalise the world's copy of the configuration to the device that is really built
            let mut e = env.borrow_mut();
            e.device_buf_cap = if small { crate::script::SMALL_N } else { 255 };
            if e.cfg.board != 4 || small {
                e.cfg.board = 1;
            }
            e.cfg.buffer_ms = None;
            let mut pc = pc;
            if small && pc.chip != ChipKind::Sx1262 {
                pc.chip = ChipKind::Sx1276;
            }
            e.cfg.phy = Some(pc);
            (pc, e.cfg.board)
        };
        macro_rules! stack {
            ($k:ty, $n:expr) => {
                if board == 4 {
                    Box::new(AsyncDut::<StackRadio<$k, 17, -1>, $n>::new(env)) as Box<dyn Dut>
                } else {
                    Box::new(AsyncDut::<StackRadio<$k, 22, 3>, $n>::new(env)) as Box<dyn Dut>
                }
            };
        }
        return match (pc.chip, small) {
            (ChipKind::Sx1262, true) => Box::new(AsyncDut::<StackRadio<K1262, 22, 3>, { crate::script::SMALL_N }>::new(env)) as Box<dyn Dut>,
            (_, true) => Box::new(AsyncDut::<StackRadio<K1276, 22, 3>, { crate::script::SMALL_N }>::new(env)) as Box<dyn Dut>,
            (ChipKind::Sx1261, _) => stack!(K1261, 256),
            (ChipKind::Sx1262, _) => stack!(K1262, 256),
            (ChipKind::Stm32wl, _) => stack!(KWl, 256),
            (ChipKind::Sx1272, _) => stack!(K1272, 256),
            (ChipKind::Sx1276, _) => stack!(K1276, 256),
        };
    }
    // an uplink-only device: no room for any downlink (board 0)
    if env.borrow().cfg.dl_queue0 {
        let mut e = env.borrow_mut();
        e.cfg.board = 0;
        e.cfg.small_buffer = false;
        e.cfg.lazy_app = false;
        drop(e);
        return match fe {
            Frontend::Nb => Box::new(NbDut::<14, 0, 256, 0>::new(env)) as Box<dyn Dut>,
            _ => Box::new(AsyncDut::<SimRadio<14, 0>, 256, 0>::new(env)) as Box<dyn Dut>,
        };
    }
    // the default downlink queue (one entry) under an application that rarely collects its downlinks (board 0)
    if env.borrow().cfg.lazy_app {
        let mut e = env.borrow_mut();
        e.cfg.board = 0;
        e.cfg.small_buffer = false;
        drop(e);
        return match fe {
            Frontend::Nb => Box::new(NbDut::<14, 0, 256, 1>::new(env)) as Box<dyn Dut>,
            _ => Box::new(AsyncDut::<SimRadio<14, 0>, 256, 1>::new(env)) as Box<dyn Dut>,
        };
    }
    // a device whose radio buffer is smaller than the largest frame (board 0)
    let small = env.borrow().cfg.small_buffer;
    if small {
        env.borrow_mut().device_buf_cap = crate::script::SMALL_N;
        return match fe {
            Frontend::Nb => Box::new(NbDut::<14, 0, { crate::script::SMALL_N }>::new(env)) as Box<dyn Dut>,
            _ => Box::new(AsyncDut::<SimRadio<14, 0>, { crate::script::SMALL_N }>::new(env)) as Box<dyn Dut>,
        };
    }
    // keep in sync with script::BOARDS
    match board {
        0 => mk!(14, 0),
        1 => mk!(22, 3),
        2 => mk!(30, -2),
        3 => mk!(5, 0),
        _ => mk!(17, -1),
    }
}
