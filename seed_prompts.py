#!/usr/bin/env python3
"""Prepare a seeding round: one scratch git worktree of /repo per claimed property under <root>/<id> and a prompt
file <root>/<id>.prompt.txt for a fresh sub-agent. The prompt contains only the property text (from properties.jsonl)
and one line per change already used in earlier rounds for that property (so that ideas are not repeated); nothing of
/verif's machinery. Usage: ./seed_prompts.py /tmp/seed3 3"""
import json, glob, os, subprocess, sys

root, rnd = sys.argv[1], int(sys.argv[2])
PROPS = ['C04', 'C05', 'C06', 'C07', 'C08', 'C09', 'C10', 'C11', 'C12', 'C14', 'C18', 'C20']
ORD = {1: 'FIRST', 2: 'SECOND', 3: 'THIRD', 4: 'FOURTH'}.get(rnd, f'{rnd}th')  # noqa
PREFER = {
    2: "slips in the nb_device state machine or the async_device Class C paths; slips that only show in one region other than those used above; slips in lorawan-encoding that only the device-level behaviour exposes; interactions between two features (ADR x channel masks, join bias x CFList, Class C x confirmed frames, deferred TX x timers); in lora-phy, slips in sx127x as well as sx126x and in the LorawanRadio adapter.",
    3: "slips that need a LONG or multi-phase history (re-join after a session with negotiated parameters; counter or epoch boundaries; several downlinks in one window; the second or third procedure after an error); slips in code shared by both front-ends that only one front-end exposes; slips in the Timings / PhyRxTx adapter layer (lora-phy/src/lorawan_radio.rs) and in lora-phy mod_params / interface helpers; slips in per-region tables of regions not used so far (AS923-2/3/4, IN865, EU433, AU915); slips in how state is reset, kept or restored across join / re-join / session restore; slips that are only visible through radio configuration (frequency, data rate, power, timeouts, IQ inversion, sync word, CRC, preamble) rather than through return values.",
    4: "slips in how errors are propagated (an Err swallowed, mapped to the wrong variant, or a state change made before a fallible call whose failure is then reported as 'nothing happened'); slips in the nb_device state machine for unusual but legal event orders (a radio event or timeout arriving in a state that does not expect it, a new request while a procedure is in flight) and in the async Class C listening loops; slips that only show after many operations or at counter values near 2^16 / 2^32 or at table boundaries (highest data rate, highest channel index, last sub-band, maximum payload, maximum number of queued MAC answers); slips in lorawan-encoding (FCtrl bits, FOptsLen, MHDR types, creator/parser asymmetries) that only the device-level behaviour exposes; slips in lora-phy that are specific to the SX127x family or to one board option (TCXO, DC-DC, RX boost, PA_BOOST), or in the LorawanRadio adapter's use of timeouts, buffers and packet parameters.",
    5: "slips in time and unit arithmetic (RX window times taken from the wrong reference point, ms vs s at particular values, wrapping or saturating arithmetic at large delays or late timers, lora-modulation symbol / air-time arithmetic used for receive timeouts); slips in bookkeeping across MANY sessions (third join, re-join after expiry, ABP then OTAA, a session restored and then re-joined); Class C state that survives a re-join, an error or a disable / enable; the join path (DevNonce handling across attempts, JoinAccept of 17 vs 33 bytes, CFList types per region, accept heard in RX2 only); how confirmed uplinks, NoAck and session expiry are reported by each front-end; public getters / setters (set_datarate, set_adr, get_fcnt_up, ready_to_send_data, take_downlink) that leave the device in an inconsistent state when called at a particular moment; and lora-phy slips that depend on the ORDER of prepare / start / complete calls the LoRaWAN adapter really issues (including after a receive timeout, after an error, and when switching between continuous and single reception).",
    6: "whatever you judge the best-hidden: first list for yourself every function reachable from the property's code anchors that NONE of the earlier ideas touches, and pick your three changes there; favour code paths that need two or three unusual conditions at once (a particular region AND front-end AND history), arithmetic or table entries exercised only at one extreme value, and error or early-return branches.",
    7: "changes whose effect crosses a module boundary (a helper whose contract is subtly changed and which is used at several call sites of which only one needs the old contract); changes that depend on the device's const generics or board constants (radio buffer size N, downlink queue depth D, MAX_RADIO_POWER / ANTENNA_GAIN, the Timings values) at unusual but legal values; changes that only show on the SECOND occurrence of something (second LinkADRReq block in a session, second join with other credentials, second confirmed downlink in a row, a sticky answer already pending when another one arrives, the second restore of a session); changes in what happens AFTER an error was returned to the application (the next call after Err(Radio), after NotJoined, after PayloadTooLarge, after SessionExpired, after NoJoinAccept); changes in defaults that are only used when the network never sends a setting; for lora-phy: what the driver does with interrupt flags that arrive together or late (stale flags of the previous operation, two flags in one status read), the order of the steps inside init / cold start for one board option, and the adapter's handling of a call repeated without an intervening prepare.",
    8: "the ENVIRONMENT side of the seams: changes that only show for values a radio / timer / RNG / application implementation may legally return or pass but that a test double rarely produces - rx_single / rx_continuous reporting length 0 or exactly the buffer size, RxQuality with extreme SNR / RSSI (-128, 127), tx() returning 0 or a very large on-air time, Timings with lead time 0 or larger than the RX delay, receive windows lasting a second or more, an RNG that returns 0, u32::MAX or the same value every time, FPort 0 / 1 / 223, empty or maximum-size application payloads, a confirmed uplink sent again, set_datarate / set_adr called with the value already in force, the same call made twice in a row (join twice, set_session twice, rxc_listen dropped and called again), take_downlink never called so that the downlink queue stays full; for lora-phy the chip side: status bytes with reserved bits set, IRQ flags that were not asked for, a packet of length 0 or 255, BUSY staying high longer than usual, the IRQ line already high when the wait starts. Assume that an automated simulator with reference models of the protocol is watching the device through its radio, timer and RNG seams: prefer changes whose violation such a tool would plausibly not think of provoking.",
}
props = {}
for l in open('/verif/properties.jsonl'):
    p = json.loads(l)
    props[p['id']] = p
prev = {}
for d in sorted(glob.glob('/verif/seeded/*/')):
    m = json.load(open(d + 'meta.json'))
    pid = os.path.basename(d.rstrip('/')).split('-')[0]
    prev.setdefault(pid, []).append(m.get('title', '') + ' [' + ', '.join(m.get('files_changed', [])) + ']')
base = '''You are a software engineer producing *seeded defects* for evaluating a verification tool. Work offline (no network; always pass `--offline` to cargo).

Your scratch copy of the Rust project lora-rs (a no_std LoRaWAN end-device stack: `lorawan-encoding` frame codec, `lorawan-device` MAC with the `nb_device` and `async_device` front-ends and regional channel plans, `lora-phy` SX126x/SX127x drivers) is the git worktree **@ROOT@/@ID@** (detached HEAD). Work ONLY inside that directory. Do NOT read, list or use anything under /verif or /repo, and do not touch the other @ROOT@/* directories — your result must be independent of any existing verification machinery.

The semantic property to break (it currently holds on this tree as far as is known) is in @ROOT@/@ID@.property.txt — read it first, then read the code it is anchored in.

## Task
Produce up to THREE different, realistic changes to the library source (files under lorawan-device/src, lorawan-encoding/src, lora-modulation/src or lora-phy/src; not tests, not Cargo files) such that, for each change on its own:
1. the workspace still compiles: `cd @ROOT@/@ID@ && cargo build --workspace --offline`;
2. the existing test suite still passes, unedited: `cd @ROOT@/@ID@ && cargo nextest run --workspace --no-fail-fast --offline` (319 tests; one Class C test is timing-sensitive under machine load — re-run once before concluding that you broke it);
3. the property statement is violated, and you can DEMONSTRATE it: a new test file or a tiny program that FAILS with your change applied and PASSES on the unchanged tree. Put the demonstration where it can use crate-private items if it needs them (a new `#[cfg(test)] mod` file wired in with one `mod` line, or a new file under `<crate>/tests/`), and say exactly how to run it (one cargo command). The existing async device tests (lorawan-device/src/async_device/test/), nb tests (lorawan-device/src/nb_device/test/) and the emulator-based tests under lora-phy/src/sx126x/test and lora-phy/src/sx127x/test show how to drive the code.
4. the change looks like something a developer could plausibly write (a refactoring slip, an off-by-one, a wrong constant, a reordered statement, a missing reset, a forgotten case, an optimisation that skips a step, a copy-paste between the two front-ends or between two regions) — not a blatant `panic!()` or an `if magic_value`.
5. IMPORTANT: the violation must need something *specific* to manifest — a particular interleaving or ordering of events, a fault or error at a particular point, a multi-step sequence of operations, an unusual but legal input value or counter value, a particular region / configuration / front-end, or two cooperating sites that each look fine alone. Ordinary use (join, send a few uplinks, receive a downlink) must NOT expose it at once.
6. This is the @ORD@ round. The following ideas were already used in earlier rounds for this property — do NOT repeat them or close variants of them; pick different mechanisms, different files, different regions, the other front-end, a different fault position, a different boundary:
@PREV@
Prefer, if you can find plausible ones: @PREFER@
The change must genuinely violate the property STATEMENT as written (re-read it before you settle on a change): a behaviour the statement leaves open, or that only differs from what the code does today, is not a violation.

## Deliverable (per change k = 1, 2, 3) in @ROOT@/@ID@/seed-out/k/
- `patch.diff`: `git diff` of the library change ONLY (not the demonstration), relative to the worktree root, applicable with `git apply` on the unchanged tree;
- `demo.diff`: `git diff` of the demonstration files ONLY (new test file(s) plus any `mod` line), applicable on the unchanged tree and also together with patch.diff;
- `meta.json`: {"property": "@ID@", "title": "<one line>", "what_it_breaks": "<which clause of the statement>", "needs_to_manifest": "<the specific sequence / value / fault / configuration needed>", "demo_cmd": "<exact cargo command that runs only the demonstration>", "files_changed": [...]}.
Before writing the deliverable verify all of this yourself: (a) unchanged tree + demo.diff: demo passes; (b) patch.diff + demo.diff: demo fails; (c) patch.diff alone: build + full existing suite pass. Produce the diffs with `git diff -- <paths>` (use `git add -N` for new files so that they appear in the diff), then `git checkout -- . && git clean -fd -e seed-out -e target` to return to the unchanged tree between changes. Leave the worktree clean (apart from seed-out/ and target/) when you finish.

Your final message: for each change, three lines — what it changes, what is needed to trigger it, and the demo command with its observed pass/fail results. If you could not produce three, say why.
'''
os.makedirs(root, exist_ok=True)
for pid in PROPS:
    wt = f"{root}/{pid}"
    if not os.path.exists(wt):
        subprocess.run(f"git -C /repo worktree add -q --detach {wt} HEAD", shell=True, check=True)
    os.makedirs(f"{wt}/seed-out", exist_ok=True)
    p = props[pid]
    open(f"{root}/{pid}.property.txt", 'w').write(
        f"{p['id']} — {p['title']}\n\nStatement: {p['statement']}\n\nQuantifier: {p['quantifier']['text']}\n\nWhy the existing tests cannot settle it: {p['why_tests_cant']}\n\nCode anchors (files): {', '.join(p['anchors']['files'])}\nMechanisms meant to make it hold: {'; '.join(m['name'] + ' @ ' + m['where'] for m in p['anchors']['mechanism'])}\n")
    open(f"{root}/{pid}.prompt.txt", 'w').write(
        base.replace('@ROOT@', root).replace('@ID@', pid).replace('@ORD@', ORD).replace('@PREFER@', PREFER.get(rnd, PREFER[3])).replace('@PREV@', '\n'.join('   - ' + t for t in prev.get(pid, []))))
print("prepared", root)
