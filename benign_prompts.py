#!/usr/bin/env python3
"""Prepare a *soundness* round: one scratch git worktree of /repo per claimed property under <root>/<id> and a prompt
file <root>/<id>.prompt.txt for a fresh sub-agent that is asked for changes which alter the code near the property's
anchors (refactorings, legal behaviour changes, changes in what the statement leaves open) while the property STILL
HOLDS. The checks must stay silent on every one of them ("never raise an alarm on code where the property holds").
The prompt contains only the property text; nothing of /verif's machinery. Usage: ./benign_prompts.py /tmp/benign1"""
import json, os, subprocess, sys

root = sys.argv[1]
BOLD = "--bold" in sys.argv
if BOLD:
    sys.argv.remove("--bold")
PROPS = sys.argv[2:] or ['C04', 'C05', 'C06', 'C07', 'C08', 'C09', 'C10', 'C11', 'C12', 'C14', 'C18', 'C20']
props = {}
for l in open('/verif/properties.jsonl'):
    p = json.loads(l)
    props[p['id']] = p
base = '''You are a maintainer of the Rust project lora-rs (a no_std LoRaWAN end-device stack: `lorawan-encoding` frame codec, `lorawan-device` MAC with the `nb_device` and `async_device` front-ends and regional channel plans, `lora-phy` SX126x/SX127x drivers). Work offline (no network; always pass `--offline` to cargo).

Your scratch copy is the git worktree **@ROOT@/@ID@** (detached HEAD). Work ONLY inside that directory. Do NOT read, list or use anything under /verif or /repo, and do not touch the other @ROOT@/* directories.

A third-party verification tool watches this code base for violations of the semantic property in @ROOT@/@ID@.property.txt — read it first, then read the code it is anchored in. The tool must stay silent on every version of the code on which the property still holds. Your job is to produce legitimate changes that put this to the test: changes a maintainer could really merge, which alter the code the property is anchored in — some of them alter behaviour that an external observer (a radio stub, a timer stub, the RNG, a peer on the air, the application) can see — while the property statement REMAINS TRUE.

## Task
Produce up to FOUR different changes to the library source (files under lorawan-device/src, lorawan-encoding/src, lora-modulation/src or lora-phy/src; not tests, not Cargo files). Aim for one of each kind, in this order of preference:
 A. a behaviour-preserving refactoring of the anchored mechanism (restructured control flow, a helper extracted, a loop rewritten, a table re-expressed as a formula or vice versa, state kept in a different representation, checks done in a different order where the order cannot matter);
 B. a change of behaviour in something the statement explicitly leaves open or does not mention (which of several legal choices is made; how many random numbers are drawn and in which order; which error variant is returned on a failure the statement does not specify; additional radio calls that are harmless, e.g. an extra low_power()/standby; a stricter or laxer treatment of inputs the statement calls ambiguous or does not cover; different logging; different internal timing that stays within what the statement prescribes);
 C. a change of behaviour in neighbouring functionality the statement does not cover at all (another feature, another message type, a getter, documentation of a default that the statement does not fix);
 D. a legitimate stricter behaviour: the device refuses something it used to accept where the statement allows refusal (for example rejecting a MAC request that the statement does not oblige it to accept, answering so), or does some extra safe work.
For each change on its own:
1. the workspace still compiles: `cd @ROOT@/@ID@ && cargo build --workspace --offline`, and the crates also build with their optional features: `cargo build -p lora-phy -p lorawan-device --offline --features lora-phy/lorawan-radio,lora-phy/verif-hooks,lorawan-device/serde,lorawan-device/verif-hooks` (the `verif-hooks` feature offers read-only accessors `verif_snapshot()` / `verif_radio_mode()` etc.; keep them compiling and keep them reporting the true state if you change a representation);
2. the existing test suite still passes, unedited: `cd @ROOT@/@ID@ && cargo nextest run --workspace --no-fail-fast --offline` (319 tests; one Class C test is timing-sensitive under machine load — re-run once before concluding that you broke it);
3. the property statement — every clause of it, for every input / history / configuration it quantifies over — still holds. Re-read the statement clause by clause against your change and write down why each clause is unaffected. If you are not sure, do not submit that change. A change that makes the property false in some corner is a failure of this task.
4. the change is realistic: something that could appear in a pull request with a sensible commit message. Not a no-op (whitespace, comments, renames only) — it must change generated code or observable behaviour.
Do not change the public API signatures used by applications (Device::new, send, join, take_downlink, get_session, PhyRxTx / Timings traits, LoRa::* methods), so that existing applications and harnesses still compile.

## Deliverable (per change k = 1..4) in @ROOT@/@ID@/benign-out/k/
- `patch.diff`: `git diff` of the library change, relative to the worktree root, applicable with `git apply` on the unchanged tree;
- `meta.json`: {"property": "@ID@", "kind": "A|B|C|D", "title": "<one line, as a commit subject>", "observable_difference": "<what an external observer could notice, or 'none'>", "why_property_still_holds": "<clause-by-clause argument>", "files_changed": [...]}.
Before writing the deliverable verify points 1 and 2 yourself with the patch applied alone. Produce the diff with `git diff -- <paths>`, then `git checkout -- . && git clean -fd -e benign-out -e target` to return to the unchanged tree between changes. Leave the worktree clean (apart from benign-out/ and target/) when you finish.

Your final message: for each change, two lines — what it changes and what an observer could notice; and the build/test results you saw.
'''
os.makedirs(root, exist_ok=True)
for pid in PROPS:
    wt = f"{root}/{pid}"
    if not os.path.exists(wt):
        subprocess.run(f"git -C /repo worktree add -q --detach {wt} HEAD", shell=True, check=True)
    os.makedirs(f"{wt}/benign-out", exist_ok=True)
    p = props[pid]
    open(f"{root}/{pid}.property.txt", 'w').write(
        f"{p['id']} — {p['title']}\n\nStatement: {p['statement']}\n\nQuantifier: {p['quantifier']['text']}\n\nCode anchors (files): {', '.join(p['anchors']['files'])}\nMechanisms meant to make it hold: {'; '.join(m['name'] + ' @ ' + m['where'] for m in p['anchors']['mechanism'])}\n")
    text = base.replace('@ROOT@', root).replace('@ID@', pid)
    if BOLD:
        text = text.replace("## Deliverable", """## This round
Earlier rounds produced cautious refactorings; the tool stayed silent on all of them. In this round prefer kinds B and D and be bold: the more an external observer (radio stub, timer stub, RNG, the peer on the air, the application) sees differently, the better - extra, fewer or re-ordered radio calls; different but still conforming timer requests; a different order of internal bookkeeping; different answers or refusals where the statement leaves a choice; different error variants and different behaviour after errors; different use of the RNG; stricter input validation; recovery actions after failures - as long as every clause of the statement still holds for every input, history and configuration it quantifies over. Changes that span two or three functions or files are welcome.

## Deliverable""")
    open(f"{root}/{pid}.prompt.txt", 'w').write(text)
print("prepared", root)
