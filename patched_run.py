#!/usr/bin/env python3
"""Run registered checks against a *patched copy* of /repo without touching /repo itself.

  ./patched_run.py [--slot N] [--runs R] [--tier quick|thorough] <patch.diff | none> [check ids...]

A persistent scratch area /tmp/px<N>/ holds (a) a git worktree of /repo's HEAD, to which the patch is applied (and from
which it is removed again afterwards), and (b) a copy of /verif/sim (re-synchronised on every call; build output is kept
between calls so that only the patched crates are rebuilt) whose path dependencies point at that worktree. The checks
read known_findings.json and the regression replays from /verif (VERIF_ROOT) and write replays / evidence under
/tmp/px<N>/out (VERIF_OUT), so nothing under /verif changes. Used by the seeded-change and soundness rounds
(DESIGN section 14 / 16) so that they can run next to ordinary work on /verif and /repo.

Prints one line per check:  <check> rc=<exit> invariants=<ids> (<seconds>s)  and a final JSON summary line.
Exit status: 0 when no check raised an alarm, 1 when one did, 2 on a harness / build error."""
import json, os, subprocess, sys, time

ALL = ["C04", "C05", "C06", "C07", "C08", "C09", "C10", "C11", "C12", "C14", "C18", "C20"]


def sh(cmd, cwd=None, env=None, timeout=7200):
    e = dict(os.environ)
    e["CARGO_NET_OFFLINE"] = "true"
    if env:
        e.update(env)
    p = subprocess.run(cmd, shell=True, cwd=cwd, env=e, capture_output=True, text=True, timeout=timeout)
    return p.returncode, p.stdout + p.stderr


def main():
    a = sys.argv[1:]
    slot, runs, tier, live = "0", None, "quick", False
    while a and a[0] == "--live-sim":
        # use /verif/sim as it is on disk (harness development); default: the committed HEAD of /verif
        live = True
        a = a[1:]
    while a and a[0].startswith("--"):
        if a[0] == "--slot":
            slot = a[1]
        elif a[0] == "--runs":
            runs = a[1]
        elif a[0] == "--tier":
            tier = a[1]
        a = a[2:]
    patch, checks = a[0], (a[1:] or ALL)
    px = f"/tmp/px{slot}"
    wt, sim, out = f"{px}/repo", f"{px}/sim", f"{px}/out"
    os.makedirs(px, exist_ok=True)
    head = sh("git -C /repo rev-parse HEAD")[1].strip()
    if not os.path.exists(wt + "/.git"):
        sh(f"git -C /repo worktree prune")
        rc, o = sh(f"git -C /repo worktree add -q --detach {wt} HEAD")
        if rc != 0:
            print("HARNESS-ERROR cannot create worktree:", o)
            return 2
    # bring the worktree to /repo's HEAD, unpatched
    sh("git reset -q --hard && git clean -fdq -e target", cwd=wt)
    sh(f"git checkout -q --detach {head}", cwd=wt)
    # refresh the simulator copy (keeps target/)
    if live:
        sh(f"rsync -a --delete --exclude target --exclude target-ext /verif/sim/ {sim}/")
    else:
        # the committed simulator, so that edits in progress under /verif/sim do not leak into a long round
        sh(f"rm -rf {px}/simsrc && mkdir -p {px}/simsrc && git -C /verif archive HEAD sim | tar -x -C {px}/simsrc")
        sh(f"rsync -a --delete --checksum --exclude target --exclude target-ext {px}/simsrc/sim/ {sim}/")
    sh(f"sed -i 's#\"/repo/#\"{wt}/#' lorasim/Cargo.toml physim/Cargo.toml", cwd=sim)
    if patch != "none":
        rc, o = sh(f"git apply {os.path.abspath(patch)}", cwd=wt)
        if rc != 0:
            # made against an earlier HEAD of /repo: merge it (fails only where it overlaps a later commit)
            rc, o = sh(f"git apply -3 {os.path.abspath(patch)} && git reset -q", cwd=wt)
        if rc != 0:
            sh("git reset -q --hard", cwd=wt)
            print("HARNESS-ERROR patch does not apply:", o[:400])
            return 2
    res, worst = {}, 0
    try:
        need = {"physim" if c in ("C14", "C18") else "lorasim" for c in checks}
        for pkg in sorted(need):
            rc, o = sh(f"cargo build --release --offline -q -p {pkg} 2>&1 | grep -E '^error' -A8 | head -40", cwd=sim)
            if not os.path.exists(f"{sim}/target/release/{pkg}") or "error" in o:
                print(f"HARNESS-ERROR build of {pkg} failed:\n{o}")
                return 2
        for c in checks:
            pkg = "physim" if c in ("C14", "C18") else "lorasim"
            env = {"VERIF_ROOT": "/verif", "VERIF_OUT": out, "VERIF_NO_EVIDENCE": "1"}
            if runs:
                env["VERIF_RUNS"] = runs
            t0 = time.time()
            rc, o = sh(f"{sim}/target/release/{pkg} check {c} {tier}", cwd="/verif", env=env)
            invs = sorted({l.split("invariant=")[1].split()[0] for l in o.splitlines() if "invariant=" in l})
            viol = [l for l in o.splitlines() if l.startswith("VIOLATION")]
            res[c] = {"rc": rc, "invariants": invs, "violations": viol[:6]}
            print(f"{c} rc={rc} invariants={'+'.join(invs)[:160]} ({time.time() - t0:.0f}s)", flush=True)
            if rc == 1:
                worst = max(worst, 1)
            elif rc != 0:
                worst = 2
                print(o[-600:])
    finally:
        sh("git reset -q --hard && git clean -fdq -e target", cwd=wt)
    print("SUMMARY " + json.dumps({"patch": patch, "results": res}))
    return worst


if __name__ == "__main__":
    sys.exit(main())
