#!/usr/bin/env python3
"""Self-tests of the verification machinery (not registered checks; see DESIGN.md section 10).

  ./selftest.py determinism [props...]   every property: same VERIF_SEED twice in separate processes, with 1, 5 and 16
                                         workers, for three seeds; the per-run digests must be identical
  ./selftest.py regressions              for every finding recorded as fixed: reverse-apply that fix commit in /repo,
                                         rebuild, replay the recorded script (must REPRODUCE), restore /repo
  ./selftest.py seeded [ids...]          for every /verif/seeded/<id>: apply patch.diff to /repo, run the quick checks
                                         named in meta.json (default: the property's own), restore /repo; prints the
                                         detection matrix

/repo is always restored with `git checkout -- .` (never committed to).
"""
import json, os, subprocess, sys, glob, time

VERIF = "/verif"
REPO = "/repo"
PROPS = ["C04", "C05", "C06", "C07", "C08", "C09", "C10", "C11", "C12", "C14", "C18", "C20"]


def sh(cmd, env=None, cwd=None, timeout=3600):
    e = dict(os.environ)
    if env:
        e.update(env)
    p = subprocess.run(cmd, shell=True, cwd=cwd, env=e, capture_output=True, text=True, timeout=timeout)
    return p.returncode, p.stdout + p.stderr


def repo_clean():
    rc, out = sh("git status --porcelain --untracked-files=no", cwd=REPO)
    return out.strip() == ""


def restore_repo():
    sh("git checkout -- . && git clean -fdq -e target", cwd=REPO)


def determinism(props):
    ok = True
    budget = {"C12": 3000, "C09": 8000, "C14": 60000, "C18": 60000}
    for p in props:
        digests = {}
        for seed in (1, 2, 77):
            for workers in (1, 5, 16):
                for rep in (0, 1):
                    env = {"VERIF_SEED": str(seed), "VERIF_WORKERS": str(workers), "VERIF_DIGEST": "1", "VERIF_NO_EVIDENCE": "1",
                           "VERIF_RUNS": str(budget.get(p, 20000)), "VERIF_OUT": "/tmp/vr-selftest"}
                    rc, out = sh(f"./check {p} quick", env=env, cwd=VERIF)
                    line = [l for l in out.splitlines() if l.startswith("DIGEST")]
                    if not line:
                        print(f"{p}: no digest (rc={rc})\n{out[-500:]}")
                        ok = False
                        continue
                    digests.setdefault(seed, set()).add(line[0].split("digest=")[1])
        for seed, ds in digests.items():
            status = "identical" if len(ds) == 1 else f"DIVERGED {ds}"
            if len(ds) != 1:
                ok = False
            print(f"{p} seed={seed}: 6 executions (1/5/16 workers x 2 processes): {status}")
    sh("rm -rf /tmp/vr-selftest")
    return ok


def regressions():
    kf = json.load(open(f"{VERIF}/known_findings.json"))["findings"]
    ok = True
    if not repo_clean():
        print("refusing: /repo has uncommitted changes")
        return False
    for f in kf:
        if f.get("status") != "fixed" or not f.get("replay") or not f.get("commit"):
            continue
        commit = f["commit"]
        manual = f"{VERIF}/{f['unfix_patch']}" if f.get("unfix_patch") else f"{VERIF}/known/unfix/{commit}.diff"
        if os.path.exists(manual):
            # later fixes touch the same lines: a hand-made patch re-introduces just this defect on HEAD
            rc, out = sh(f"git apply {manual}", cwd=REPO)
        else:
            rc, out = sh(f"git diff {commit}^ {commit} | git apply -R", cwd=REPO)
        rc2, st = sh("git status --porcelain --untracked-files=no", cwd=REPO)
        if not st.strip():
            print(f"{f['property']} {commit}: could not reverse-apply the fix ({out.strip()[:200]})")
            ok = False
            restore_repo()
            continue
        sh("git reset -q", cwd=REPO)
        rc, out = sh(f"./check replay {f['replay']}", cwd=VERIF, env={"VERIF_QUIET": "1"})
        verdict = "REPRODUCED" if "REPRODUCED" in out or "DIFFERENT" in out else ("CLEAN" if "CLEAN" in out else f"rc={rc} {out[-200:]}")
        if "REPRODUCED" not in out and "DIFFERENT" not in out:
            ok = False
        print(f"{f['property']} un-fix {commit}: replay {os.path.basename(f['replay'])}: {verdict}")
        restore_repo()
    # rebuild against the restored tree
    sh("./check selftest", cwd=VERIF)
    return ok


def seeded(ids):
    if not repo_clean():
        print("refusing: /repo has uncommitted changes")
        return False
    dirs = sorted(glob.glob(f"{VERIF}/seeded/*/"))
    if ids:
        dirs = [d for d in dirs if os.path.basename(d.rstrip("/")) in ids]
    all_ok = True
    rows = []
    for d in dirs:
        sid = os.path.basename(d.rstrip("/"))
        meta = json.load(open(d + "meta.json"))
        checks = meta.get("checks") or [meta["property"]]
        rc, out = sh(f"git apply {d}patch.diff", cwd=REPO)
        if rc != 0:
            print(f"{sid}: patch does not apply: {out[:300]}")
            all_ok = False
            restore_repo()
            continue
        caught = []
        for c in checks:
            t0 = time.time()
            rc, out = sh(f"./check {c} quick", cwd=VERIF, env={"VERIF_OUT": "/tmp/vr-seeded", "VERIF_NO_EVIDENCE": "1"})
            invs = sorted({l.split("invariant=")[1].split()[0] for l in out.splitlines() if "invariant=" in l})
            if rc == 1:
                caught.append(f"{c}:{'+'.join(invs)[:120]} ({time.time()-t0:.0f}s)")
            elif rc != 0:
                caught.append(f"{c}:rc={rc}")
        restore_repo()
        rows.append((sid, meta["property"], caught))
        print(f"{sid} [{meta['property']}] {meta.get('title','')[:70]}: {'CAUGHT by ' + ', '.join(caught) if caught else 'MISSED'}")
        if not caught:
            all_ok = False
    sh("rm -rf /tmp/vr-seeded")
    sh("./check selftest", cwd=VERIF)
    return all_ok


if __name__ == "__main__":
    cmd = sys.argv[1] if len(sys.argv) > 1 else ""
    args = sys.argv[2:]
    if cmd == "determinism":
        sys.exit(0 if determinism(args or PROPS) else 1)
    if cmd == "regressions":
        sys.exit(0 if regressions() else 1)
    if cmd == "seeded":
        sys.exit(0 if seeded(args) else 1)
    print(__doc__)
    sys.exit(2)
