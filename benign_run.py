#!/usr/bin/env python3
"""Soundness round: run every registered check against each property-preserving change produced by a sub-agent
(<root>/<id>/benign-out/<k>/patch.diff + meta.json, see benign_prompts.py). /repo is not touched (patched_run.py).
A check that raises an alarm on such a change is either a false alarm of the machinery (to be corrected) or the change
is not benign after all (the lead decides by reading the replay). Results: /verif/benign/<id>-<k>/{patch.diff,meta.json}
with the verdict per check.   Usage: ./benign_run.py <root> [--slot N] [--runs R] [ids...]"""
import glob, json, os, shutil, subprocess, sys

a = sys.argv[1:]
root = a[0]
a = a[1:]
slot, runs, offset = "1", "250000", 0
while a and a[0].startswith("--"):
    if a[0] == "--offset":
        offset = int(a[1])
    if a[0] == "--slot":
        slot = a[1]
    if a[0] == "--runs":
        runs = a[1]
    a = a[2:]
only = set(a)
for d in sorted(glob.glob(f"{root}/*/benign-out/*/")):
    parts = d.rstrip("/").split("/")
    pid, k = parts[-3], parts[-1]
    sid = f"{pid}-{int(k) + offset}"
    if only and sid not in only and pid not in only:
        continue
    if not os.path.exists(d + "patch.diff") or not os.path.exists(d + "meta.json"):
        continue
    dst = f"/verif/benign/{sid}"
    if os.path.exists(dst + "/meta.json") and "verdict" in json.load(open(dst + "/meta.json")) and not only:
        continue
    meta = json.load(open(d + "meta.json"))
    p = subprocess.run(f"/verif/patched_run.py --slot {slot} --runs {runs} {d}patch.diff", shell=True, capture_output=True, text=True)
    summ = [l for l in p.stdout.splitlines() if l.startswith("SUMMARY ")]
    res = json.loads(summ[0][8:])["results"] if summ else {}
    alarms = {c: r["invariants"] for c, r in res.items() if r["rc"] == 1}
    errors = {c: r["rc"] for c, r in res.items() if r["rc"] not in (0, 1)}
    verdict = "silent" if p.returncode == 0 else ("ALARM" if alarms else "HARNESS-ERROR")
    print(f"{sid} [{meta.get('kind','?')}] {meta.get('title','')[:80]}: {verdict} {alarms or ''} {errors or ''}", flush=True)
    if not summ:
        print(p.stdout[-800:])
    os.makedirs(dst, exist_ok=True)
    shutil.copy(d + "patch.diff", dst)
    meta["verdict"] = verdict
    meta["alarms"] = alarms
    meta["runs_per_check"] = int(runs)
    json.dump(meta, open(dst + "/meta.json", "w"), indent=1)
