#!/usr/bin/env python3
"""Regenerates /verif/MANIFEST.json from the table below (kept in one place so it stays valid)."""
import json, subprocess

NA_PURE = {
 "C01": "pure function (frame description, keys) -> bytes: no schedule, clock, peer, fault or history for a simulator to control; deciding it would be input generation dressed up as simulation (DESIGN.md section 7)",
 "C02": "pure function of a byte buffer and keys (parse / validate_mic / decrypt_in_place); nothing to simulate (DESIGN.md section 7); the device-level consequence is covered by C05",
 "C03": "totality of pure parsers and MAC-command iterators over byte strings; no time, I/O or interleaving (DESIGN.md section 7); the device-level consequence is C04",
 "C13": "pure relation (operation, parameters, prior register bytes) -> SPI transaction list compared with a reference driver; no timing, fault or interleaving (DESIGN.md section 7)",
 "C15": "four pure functions over an 80-element (SF, BW) domain (DESIGN.md section 7)",
 "C16": "pure arithmetic (time_on_air_us) over an enumerable input space (DESIGN.md section 7)",
 "C17": "pure register-encoding arithmetic over value ranges (DESIGN.md section 7)",
 "C19": "pure builder/parser/Display/FromStr round trips (DESIGN.md section 7)",
}

# id -> (level, technique, level text, level note, design ref)
CHECKS = {
 "C06": ("fault_enumeration", "deterministic simulation: radio fault walked over every radio-call position + seeded random histories; history oracle over frames decoded by an independent codec",
         "Every data frame handed to the radio (recorded at call time, even when the call fails) is decoded by an independent reference codec; counters must strictly increase per session until expiry is reported. A radio fault is injected at every radio-call position of every transaction shape on both front-ends (+Class C), with start counters at 0 / 2^16 / 2^32 boundaries; the rest of the budget is seeded random histories. Sampling, not proof.",
         "Trusted: the reference AES-128/CMAC/LoRaWAN codec (self-tested against FIPS-197, RFC 4493 and a published frame at start-up), the SimRadio/SimTimer stubs, the nb application policy 'retry the failed event'. Cancellation of an in-flight send and power loss are not injected here.", "6 (C06)"),
}
CHECKS["C04"] = ("exploration", "deterministic simulation: complete field sweep of every MAC command / JoinAccept field x region x front-end, plus seeded random histories; catch_unwind + RNG-draw budget + post-history transmit probe",
 "Every call into the real stack (both front-ends, +Class C, 9 regions, OTAA/ABP) is wrapped in catch_unwind with a per-call RNG-draw budget that turns a non-terminating channel-selection loop into a failure; after each history the device must still hand a frame to the radio under three RNG streams. The finite field sweep is complete in the thorough tier and sampled in the quick tier; histories are sampled.",
 "Trusted: stubs (radio, timer, RNG budget), the reference codec that builds the authentic frames. Hangs that draw no random numbers are only caught by the 60 s wall-clock watchdog. Application calls stay in the documented domain (DESIGN section 8).", "6 (C04)")
CHECKS["C05"] = ("exploration", "deterministic simulation: replaying/reordering adversary over sessions at 16/32-bit counter boundaries; reference acceptance predicate (independent MIC + window arithmetic) compared per delivered frame and per state",
 "Each frame delivered in RX1/RX2/RXC is judged at delivery time by an independent implementation of the statement (size limit of the window's data rate, unique N in (last, last+16384], MIC by the reference codec); the device's reaction is read from its responses, downlink queue, stored counter and next uplink. Counter classes at every boundary are probes with hit counts in the evidence. Sampling.",
 "Trusted: reference codec and RP002 size tables, the mapping from trace to per-frame reaction (Class C gap frames are only observable through state and payloads). Frames the statement is silent about are not generated.", "6 (C05)")
CHECKS["C10"] = ("exploration", "deterministic simulation with a simulated clock: every setup_rx / RxRequest RfConfig and Timer::at / TimeoutRequest argument compared with RP002 (tables as formulas) on the parameters in force before the transmission",
 "After every uplink of seeded histories (region-valid MAC commands and JoinAccept settings that move RX1DROffset, RX2, RxDelay, DlChannel mappings, data rate; both front-ends' timing arithmetic with varied board lead/offset and tx() return values; nb set_datarate between TX and RX1) the RX1/RX2/RXC configurations and timer requests must equal the reference. Sampling; the (region, uplink DR, offset, RX2 override, delay) tuples reached are counted in the evidence.",
 "Trusted: refregion.rs (RP002-1.0.3 tables written independently, self-tested on spot values), the H1 snapshot as the source of the parameters in force (C08/C11 check that it follows the network's commands). Ambiguous RX1 table entries accept any region-defined LoRa data rate.", "6 (C10)")
CHECKS["C08"] = ("exploration", "deterministic simulation: executable reference MAC model stepped by the device's own answers and compared with a state snapshot after every accepted Class A downlink; answer sequence / truncation / stickiness checked over the uplink history",
 "For every downlink accepted in RX1/RX2 the request stream is parsed independently, the next uplink's answers are decoded by the reference codec (FOpts or port 0), checked against the expected sequence (order, whole commands, LinkADRReq block copies, trailing-only truncation at 15 bytes), then the reference model applies exactly the fully acknowledged requests per RP002 and must equal the H1 snapshot (ACK => applied exactly, NAK => nothing changed); a closed list of unambiguously invalid requests must be rejected; sticky answers are followed across later uplinks with rejected and Class C frames in between. Field sweep complete in the thorough tier; histories sampled.",
 "Trusted: refmac.rs / refregion.rs (RP002 semantics written independently), the H1 snapshot (its externally visible consequences are cross-checked by C10 and C09). Requests whose answers were dropped for lack of room may or may not have been applied.", "6 (C08), Appendix A")
CHECKS["C12"] = ("exploration", "deterministic simulation of long histories (hundreds of uplinks per run at microsecond cost): executable reference model of header bits, ADR counter and back-off compared uplink by uplink",
 "Every uplink of seeded histories of up to 400 uplinks (all regions incl. data-rate gaps, both front-ends + Class C, rare accepted / confirmed / rejected downlinks, ADR toggles, data-rate overrides, re-joins) is decoded by the reference codec and compared with the model's DevAddr, MType, ACK, ADR, ADRACKReq and data rate; the data rate must never change unless the model says so. Sampling.",
 "Trusted: reference codec, the model in props/c12.rs (written from the statement), reference verdicts for which downlinks count as accepted (C05 checks the device agrees). Count-dependent predictions are suspended after an ADR toggle or a mid-transaction Class C reception until the next RX1/RX2 downlink.", "6 (C12)")
CHECKS["C09"] = ("exploration", "deterministic simulation with a harness-owned RNG: admissible-set monitor on every TxConfig, RNG-outcome enumeration of the final transmission by re-execution with forced draws, RNG-draw budget for termination",
 "Every frame handed to the radio in seeded histories (CFLists, LinkADRReq masks, NewChannelReq create/delete, ADR back-off across bandwidth classes, data-rate overrides, re-joins under join bias; 4 boards) must be in band, on a defined and enabled channel (join: a join channel with the mandated data rate), with a region-defined data rate of the channel's bandwidth and power within radio maximum, regional EIRP less gain and the commanded level. For the final transmission of each history all 64 first-draw outcomes are enumerated by re-execution (thorough: every run; quick: 1 in 8). Sampling over histories.",
 "Trusted: refregion.rs band/channel/power tables, the H1 snapshot for plan and mask in force. A retry loop that draws more than 100000 random numbers is reported as non-terminating.", "6 (C09)")
CHECKS["C11"] = ("exploration", "deterministic simulation with a reference join server: loss / corruption / wrong key / foreign traffic / retries / re-joins; independent key derivation and 'applied iff valid' model compared with the device's session and H1 snapshot",
 "Every JoinRequest handed to the radio is decoded (EUIs in wire order, MIC under the root key); JoinSuccess must coincide with an authentic JoinAccept delivered in RX1/RX2 (judged by the reference codec), and then keys, address, counters, RX delay, RX1 offset, RX2 data rate and CFList must equal the reference (valid settings applied, invalid ones ignored, ambiguous ones either). Sampling over the JoinAccept content space and attempt histories.",
 "Trusted: reference codec (AES decrypt/encrypt duality self-tested), refregion.rs validity rules, H1 snapshot.", "6 (C11)")
CHECKS["C07"] = ("exploration", "deterministic simulation, twin execution (2-safety / non-interference): the same seeded history with and without the frames the reference codec rejects, on two fresh devices with identical per-operation RNG seeds",
 "Which frames are rejected is decided by the independent reference codec at delivery time; the twin script removes exactly those (kept frames are pinned to the delivered bytes) and both runs are compared operation by operation: every radio request (uplink bytes, TxConfig, RX configurations), timer request relative to TX end, response, delivered downlink and the H1 snapshot. Rejected frames are biased to arrive when there is state to lose (sticky answers, owed ACK). Sampling.",
 "Trusted: reference codec verdicts; determinism of the device under the per-operation RNG reseeding (proven by the determinism self-test); the receptions themselves are excluded from the comparison. For an oversize frame the twin follows whichever allowed behaviour the device showed.", "6 (C07)")
CHECKS["C20"] = ("exploration", "deterministic simulation with crash/restore at arbitrary operation boundaries (durable state = the serde_json text only) compared in lock-step with a twin that is never power-cycled; structurally mutated documents",
 "A save / power-loss / restore-into-a-fresh-device step is inserted at 1-4 arbitrary boundaries of seeded histories (counters at 16/32-bit boundaries, no downlink yet, one-shot and sticky answers up to 15 bytes pending, owed ACK); at each restore the session equals its pre-image field by field (H1) and re-serialises to the same text, and the restored device is compared with a twin that keeps running: uplink bytes, responses to fresh and replayed downlinks, delivered payloads, every session field after every operation. One run in three restores from a structurally mutated document, which must be refused or leave every later operation panic-free. Sampling.",
 "Trusted: serde_json as storage, the harness re-applying the application's data-rate / ADR settings after a restore (the MAC configuration is not part of the persisted session). Crash points are operation boundaries; power loss inside a transaction is not modelled.", "6 (C20)")
CHECKS["C14"] = ("fault_enumeration", "deterministic simulation of the PHY world: real LoRa + SX126x/SX127x drivers (+ LorawanRadio adapter) over emulated chips with a simulated clock; a transport fault walked over every SPI / BUSY / IRQ position of every step of 26 scenarios x 5 chip variants, cancellation at every droppable wait, seeded random scripts; chip-side monitors",
 "Four monitors judged on the emulated chip and the driver's own mode (hook H2): wrong-mode calls are refused without bus traffic; no command reaches a sleeping chip (incl. RxDutyCycle sleep phases and wake-up BUSY) without a wake-up; every configuration item a TX/RX/CAD depends on was written since the last reset / cold wake-up when the operation starts; after a chip-reported failure chip and driver are in standby; bounded recovery once faults stop. The fault walk over positions is complete for the scenario set; random scripts are sampled.",
 "Trusted: the chip models (stubs written from the SX1261/2 and SX1276/7/8/9, SX1272/3 datasheets; RF and packet timing not modelled), the reference mode tracker. 'Delivered but reported as failed' SPI faults and rf-switch faults are not injected. Two genuine defects are recorded as known findings (known_findings.json).", "6 (C14), Appendix B")
CHECKS["C18"] = ("fault_enumeration", "deterministic simulation with a lying chip: the emulated SX126x/SX127x reports arbitrary (length, offset, status, rssi/snr) after RxDone, optional SPI fault on each read transaction; canary buffer oracle through driver, LoRa and LorawanRadio paths",
 "The thorough tier walks the full grid 256 lengths x 256 offsets x 6 caller-buffer sizes x 2 chip families x 8 header-mode/access-path combinations in a seeded order (the quick tier samples it with boundary bias); every fetch must return Ok(len <= buffer) with exactly the chip buffer's bytes at the reported position (mod 256) and an untouched canary tail, or an error, and never panic (status conversion included, overflow checks on).",
 "Trusted: chip models in lying mode, canary pattern. The adapter is driven through PhyRxTx directly (no MAC above it).", "6 (C18)")
PENDING = {}

# additions of the full-stack configuration and later extensions (appended to technique / level text)
TECH_SUFFIX = {
 "C09": "; in full-stack runs (the real lora-phy adapter, mode layer and SX126x/SX127x driver on a simulated chip under the real MAC) the frequency, modulation, payload and PA power the chip is programmed with when the transmission starts are compared with the TxConfig",
 "C10": "; in full-stack runs (real lora-phy on a simulated chip under the real MAC) the frequency and modulation the chip is programmed with when each reception starts are compared with the RxConfig, and a receiver that refuses to listen is reported",
 "C04": "; part of the runs use the full stack (real lora-phy on a simulated chip: panics and hangs of the drivers under MAC-driven sequences and transport faults), small radio buffers and a one-entry downlink queue",
 "C06": "; outages (several consecutive failing radio calls) and, in full-stack runs, SPI / IRQ transport faults inside the real lora-phy calls",
}
NOTE_SUFFIX = {
 "C20": " One genuine violation is recorded as a known finding (DESIGN 13.2-3): a session stored between two events of an nb_device uplink procedure restores to a device that reuses the FCntUp of the frame already sent; that crash-point kind is switched off by its avoid tag and demonstrated by known/C20-known-nb-mid-procedure-power-cut-reuses-fcnt.json.",
 "C14": " Two genuine violations are recorded as known findings (DESIGN 13.2-1, 13.2-2).",
}
TEXT_SUFFIX = {
 "C09": " In the full-stack configuration (about one run in six) the same monitor is applied one level down: what the real driver wrote into the chip model at the moment of SetTx / mode TX (frequency, SF, bandwidth, coding rate, FIFO content, PA selection decoded per datasheet) must agree with the TxConfig and must not select more power than it asks for.",
 "C10": " In the full-stack configuration (about one run in five) what the real driver wrote into the chip model at every reception start (frequency, SF, bandwidth, coding rate) must agree with the RxConfig of the window / of the Class C listening in force, and an accepted configuration must actually lead to a listening chip.",
}

ENUM_MAC = "; plus, on every fifth run, the next case of a bounded-depth enumeration of histories over a 15-letter event alphabet in 108 configurations (complete to depth 2-3 in the quick tier and 3-4 in the thorough tier; evidence field coverage.systematic)"
for _p in ("C04", "C05", "C06", "C07", "C08", "C09", "C10", "C11", "C12", "C20"):
    TECH_SUFFIX[_p] = TECH_SUFFIX.get(_p, "") + ENUM_MAC
TECH_SUFFIX["C14"] = TECH_SUFFIX.get("C14", "") + "; plus an exhaustive enumeration of undisturbed API call sequences of depth <= 3 (quick) / <= 4 (thorough) over a 26-letter alphabet on each of the five chip variants"
TECH_SUFFIX["C05"] += "; the device's own uplinks reflected back at it are part of the adversary; radio errors inside the histories (receptions after a failed procedure are judged like any other)"
TECH_SUFFIX["C04"] += "; RNG streaks, an uplink-only device (downlink queue depth 0), the nb board clock a few seconds before 2^31 / 2^32 ms, SNR / RSSI at the extremes of their ranges"
TECH_SUFFIX["C09"] += "; RNG streaks (the same number up to 1000 times in a row, then recovery)"
TECH_SUFFIX["C10"] = TECH_SUFFIX.get("C10", "") + "; nb timer requests are read modulo 2^32 with the board clock started near 2^31 / 2^32 ms"
TECH_SUFFIX["C20"] = TECH_SUFFIX.get("C20", "") + "; on the nb front-end the stored session is also installed into devices with a past (the running device, after an unanswered join, after an uplink on another session, on another session under the same address)"
TECH_SUFFIX["C07"] = TECH_SUFFIX.get("C07", "") + "; a panic that only the run with the rejected frames shows is a violation"
TECH_SUFFIX["C14"] += "; BUSY-wait faults on both chip families; interrupt outcome 'preamble and timeout latched together'; a call that keeps waiting after the chip reported a timeout is a violation"
TECH_SUFFIX["C18"] = TECH_SUFFIX.get("C18", "") + "; five modulations (incl. SF12/125 kHz with LDRO on the SX1272 register layout); SPI faults that are delivered to the chip and then reported as failed"

# build round 4 (DESIGN section 17)
TECH_SUFFIX["C04"] += "; the application abandons join() / send() (the future is dropped at a scripted wait: a radio call that has taken effect, a receive window, a timer; in full-stack runs while the real lora-phy driver waits for TxDone or sits in a receive window), after which every later call must return and the transmit probe must succeed"
TECH_SUFFIX["C09"] += "; abandoned join() / send() futures (also inside long unanswered join-channel walks): every later frame is judged as usual; the level the network last commanded is followed independently of the device's own record"
TECH_SUFFIX["C10"] += "; abandoned join() / send() futures: the windows of every later uplink are judged as usual"
TECH_SUFFIX["C11"] = TECH_SUFFIX.get("C11", "") + "; JoinAccepts heard between the windows of a Class C join attempt (a device that becomes joined upon one must hold the session it defines)"
TECH_SUFFIX["C14"] += "; a transport fault that hits while the driver reads the outcome of an operation the chip has already ended (RxDone / timeout / CadDone / TxDone) must not leave the driver believing the operation is armed"
TECH_SUFFIX["C20"] += "; stored documents in which a struct is given as the sequence of its field values; histories with abandoned (dropped) send() futures before the power cut"


def main():
    props = [json.loads(l)["id"] for l in open("/verif/properties.jsonl")]
    checks = []
    for pid in props:
        if pid in CHECKS:
            level, tech, text, note, ref = CHECKS[pid]
            tech += TECH_SUFFIX.get(pid, "")
            text += TEXT_SUFFIX.get(pid, "")
            if NOTE_SUFFIX.get(pid, "").strip() and NOTE_SUFFIX[pid].strip() not in note:
                note += NOTE_SUFFIX[pid]
            checks.append({
                "property_id": pid,
                "quick_cmd": f"./check {pid} quick",
                "thorough_cmd": f"./check {pid} thorough",
                "evidence_file": f"/verif/evidence/{pid}.json",
                "replay_cmd_template": "./check replay {path}",
                "engine": "physim" if pid in ("C14", "C18") else "lorasim",
                "level_claimed": {"category": level, "text": text, "design_ref": f"DESIGN.md section {ref}"},
                "level_note": note,
                "technique": tech,
            })
    na = []
    for pid in props:
        if pid in CHECKS:
            continue
        if pid in NA_PURE:
            na.append({"property_id": pid, "reason": NA_PURE[pid]})
        else:
            na.append({"property_id": pid, "reason": PENDING.get(pid, "simulation check designed (DESIGN.md section 6) but not built yet at this commit; not claimed until its check exists")})
    hooks_commits = subprocess.run(["git", "-C", "/repo", "log", "--format=%h %s", "--grep=^verif-hook"], capture_output=True, text=True).stdout.strip().splitlines()
    m = {
        "version": 1,
        "setup_cmd": "cd /verif/sim && CARGO_NET_OFFLINE=true cargo build --release --offline",
        "hooks": {
            "guard": "cargo feature `verif-hooks` (lorawan-device, lora-phy); off by default",
            "enable": "the simulator crates under /verif/sim depend on /repo's crates by path with features = [\"verif-hooks\"]",
            "baseline_off_cmd": "cd /repo && cargo nextest run --workspace --no-fail-fast --offline || cargo test --workspace --no-fail-fast --offline",
            "source_commits": [c.split()[0] for c in hooks_commits],
            "add_only": True,
        },
        "engines": [
            {"name": "lorasim", "path": "/verif/sim/lorasim", "serves_properties": [p for p in CHECKS if p not in ("C14", "C18")],
             "kind_free_text": "deterministic discrete-event simulator of the LoRaWAN MAC world: real lorawan-device (both front-ends) over simulated radio, timer, RNG, ether, adversary, reference network server and storage; seeded scripts, fault injection, minimised replay files"},
            {"name": "physim", "path": "/verif/sim/physim", "serves_properties": [p for p in CHECKS if p in ("C14", "C18")],
             "kind_free_text": "deterministic simulator of the PHY world: real lora-phy LoRa / Sx126x / Sx127x / LorawanRadio over emulated chips (mode machine, IRQ logic, duty-cycle phases, config-loss, lying mode) with SPI / BUSY / IRQ faults and future cancellation on a simulated clock"},
            {"name": "simcore", "path": "/verif/sim/simcore", "serves_properties": sorted(CHECKS),
             "kind_free_text": "shared driver: seeded parallel batches (worker-count independent), known-findings triage, delta-debugging minimisation, replay files verified in a fresh process, evidence output"},
        ],
        "checks": checks,
        "not_applicable": na,
        "notes": "Technique family: deterministic simulation with fault injection. One integer (VERIF_SEED, default 1) decides every run; ./check <id> <tier> rebuilds from /repo's working tree. Known findings: /verif/known_findings.json (fixed entries are replayed as regressions and suppress nothing).",
    }
    json.dump(m, open("/verif/MANIFEST.json", "w"), indent=1)
    print("MANIFEST.json written:", len(checks), "checks,", len(na), "not applicable")

if __name__ == "__main__":
    main()
