#!/usr/bin/env python3
"""Detection matrix of the seeded changes without touching /repo: for every /verif/seeded/<id> (or the ids given) run
the quick tier of the checks named in its meta.json (default: the property's own check) against a patched scratch copy
of /repo (patched_run.py).  Usage: ./seeded_run.py [--slot N] [--all-checks] [--seed S] [--runs R] [ids...]
Prints `<id> [<property>] <title>: CAUGHT by <check>:<invariants> | MISSED`."""
import glob, json, os, subprocess, sys

a = sys.argv[1:]
slot, allc, seed, runs = "2", False, None, None
while a and a[0].startswith("--"):
    if a[0] == "--slot":
        slot = a[1]
        a = a[2:]
    elif a[0] == "--seed":
        seed = a[1]
        a = a[2:]
    elif a[0] == "--runs":
        runs = a[1]
        a = a[2:]
    elif a[0] == "--all-checks":
        allc = True
        a = a[1:]
ids = a
dirs = sorted(glob.glob("/verif/seeded/*/"), key=lambda d: (d.split("/")[-2].split("-")[0], int(d.split("/")[-2].split("-")[1])))
if ids:
    dirs = [d for d in dirs if os.path.basename(d.rstrip("/")) in ids]
missed = 0
for d in dirs:
    sid = os.path.basename(d.rstrip("/"))
    meta = json.load(open(d + "meta.json"))
    checks = [] if allc else (meta.get("checks") or [meta["property"]])
    env = dict(os.environ)
    if seed:
        env["VERIF_SEED"] = seed
    p = subprocess.run(f"/verif/patched_run.py --slot {slot} {('--runs ' + runs) if runs else ''} {d}patch.diff {' '.join(checks)}", shell=True, capture_output=True, text=True, env=env)
    summ = [l for l in p.stdout.splitlines() if l.startswith("SUMMARY ")]
    res = json.loads(summ[0][8:])["results"] if summ else {}
    caught = [f"{c}:{'+'.join(r['invariants'])[:110]}" for c, r in res.items() if r["rc"] == 1]
    errs = [f"{c}:rc={r['rc']}" for c, r in res.items() if r["rc"] not in (0, 1)]
    if not summ:
        errs.append("no summary: " + p.stdout[-300:].replace("\n", " | "))
    print(f"{sid} [{meta['property']}] {meta.get('title','')[:70]}: {'CAUGHT by ' + ', '.join(caught) if caught else 'MISSED'} {' '.join(errs)}", flush=True)
    if not caught:
        missed += 1
sys.exit(1 if missed else 0)
