#!/usr/bin/env python3
"""Markdown rows for DESIGN section 14 from seeded/<id>/meta.json and the output of seeded_run.py.
Usage: ./mk_seed_table.py <first k> <last k> <log> [<log> ...]   (rows for seeded/<prop>-<k>, first <= k <= last)"""
import glob, json, os, re, sys

lo, hi = int(sys.argv[1]), int(sys.argv[2])
caught = {}
for f in sys.argv[3:]:
    for l in open(f):
        m = re.match(r"^(C\d\d-\d+) \[.*?: (CAUGHT by (.*?)|MISSED.*)$", l.rstrip())
        if m:
            caught[m.group(1)] = (m.group(3) or "MISSED").strip()


def clip(s, n):
    s = " ".join(str(s).split()).replace("|", "/")
    return s if len(s) <= n else s[: n - 3] + "..."


rows = []
for d in glob.glob("/verif/seeded/*/"):
    sid = os.path.basename(d.rstrip("/"))
    p, k = sid.split("-")
    if not (lo <= int(k) <= hi):
        continue
    m = json.load(open(d + "meta.json"))
    c = caught.get(sid, "?")
    c = re.sub(r"C\d\d:", "", c) if c.count(":") == 1 and c.startswith(p) else c
    note = m.get("caught_note", "")
    rows.append((p, int(k), f"| {sid} | {clip(m.get('title', ''), 150)} | {clip(m.get('needs_to_manifest', ''), 170)} | {clip(c, 120)}{(' (' + note + ')') if note else ''} |"))
for _, _, r in sorted(rows):
    print(r)
